// Runs the REAL multi-device supervisor, do_remapping_loop_auto_all_devices (`remap --auto-all-keyboards`), inside a
// mount namespace that lib/e3.py prepares: /proc/bus/input/devices is a bind mount of a file this recorder rewrites,
// /sys/devices holds one eventN/uevent per device of the universe, /dev is a tmpfs with /dev/input. The inotify watch,
// list_keyboards (device list, sysfs look-up) and flag_excluded therefore run for real against real files; only the
// device nodes themselves are scripted: `open` of /dev/input/eventN and /dev/uinput, the ioctls on those descriptors
// (EVIOCGKEY, EVIOCGRAB - held by a descriptor until it is closed, as in the kernel - and the uinput set-up), reads and
// writes on them. The worker threads are the real threads the supervisor spawns, each running the real per-device loop
// on a real epoll over an eventfd; a worker ends when the script lets its next read report ENODEV (device gone) or EIO.
//
// A schedule (a behaviour of spec/Supervisor.tla with Serial = TRUE, printed by TLC) is a list of steps; step i is
// applied when the supervisor enters its i-th inotify read: the device list is rewritten, nodes are created (IN_CREATE),
// chmod'ed (IN_ATTRIB) or removed (no event: DELETE is not watched), workers are told to end - and the recorder waits
// until the worker's THREAD has exited (its /proc/self/task entry is gone), which is after it set its `done` flag. After
// the last step the device list becomes unreadable, which is the only way the supervisor returns. Every call is logged;
// spec/SupervisorTrace.tla validates the log. No judgement here.
use crate::j::*;
use crate::keys::Layout;
use serde_json::{json, Value};
use std::collections::VecDeque;
use std::io::Write;
use std::sync::Mutex;

pub struct SupDev { pub id: String, pub node: String, pub entry: String }

struct Worker { dev: usize, kfd: i32, wfd: i32, tid: i32, end: Option<&'static str>, exited: bool, grabbed: bool }

pub struct Sup {
  devs: Vec<SupDev>,
  present: Vec<bool>, badperm: Vec<bool>,
  grab: Vec<Option<usize>>,             // per device: the worker whose descriptor holds the grab of the current device instance
  always: String,                       // entries that are in the list all the time (excluded keyboard, mouse, virtual keyboard)
  steps: VecDeque<Vec<Value>>,
  pub log: Vec<Value>,
  workers: Vec<Worker>,
  opening: Option<usize>,
  listfail: bool,
  devices_file: String,
  inotify_fd: i32,
  touchn: usize,
  sup_tid: i32
}

static GSUP: Mutex<Option<Sup>> = Mutex::new(None);

thread_local! { static IN_HOOK: std::cell::Cell<bool> = std::cell::Cell::new(false); }

// calls the recorder itself makes while it holds the script (rewriting the device list, creating nodes) pass through
fn with_sup<R>(f: impl FnOnce(&mut Sup) -> Option<R>) -> Option<R> {
  if IN_HOOK.with(|c| c.replace(true)) { return None; }
  let r = {
    let mut g = match GSUP.lock() { Ok(g) => g, Err(e) => e.into_inner() };
    match g.as_mut() { Some(s) => f(s), None => None }
  };
  IN_HOOK.with(|c| c.set(false));
  r
}

pub fn active() -> bool { with_sup(|_| Some(())).is_some() }

fn gettid() -> i32 { unsafe { libc::syscall(libc::SYS_gettid) as i32 } }
fn task_alive(tid: i32) -> bool { std::path::Path::new(&format!("/proc/self/task/{}", tid)).exists() }

impl Sup {
  fn list_text(&self) -> String {
    let mut s = String::new();
    for (i, d) in self.devs.iter().enumerate() { if self.present[i] { s.push_str(&d.entry); } }
    s.push_str(&self.always);
    s
  }
  fn rewrite_list(&self) {
    // in place: the bind mount shows this very inode
    let mut f = std::fs::OpenOptions::new().write(true).truncate(true).open(&self.devices_file).unwrap();
    f.write_all(self.list_text().as_bytes()).unwrap();
  }
  fn dev_of(&self, id: &str) -> Option<usize> { self.devs.iter().position(|d| d.id == id) }
  fn dev_of_node(&self, path: &str) -> Option<usize> { self.devs.iter().position(|d| d.node == path) }
  fn worker_of_fd(&self, fd: i32) -> Option<usize> { self.workers.iter().position(|w| w.kfd == fd || w.wfd == fd) }
}

// --------------------------------------------------------------------------------------------- hooks, called from the
// interposed libc functions of looprun.rs before anything else. None = not ours, pass the call on.

pub fn hook_open(path: &str, flags: i32) -> Option<i32> {
  with_sup(|s| {
    if let Some(d) = s.dev_of_node(path) {
      let res = if !s.present[d] { "enoent" } else if s.badperm[d] { "eacces" } else { "ok" };
      let tid = gettid();
      s.log.push(json!({"c": "kopen", "d": s.devs[d].id, "res": res, "flags": flags, "bysup": tid == s.sup_tid}));
      if res != "ok" { unsafe { *libc::__errno_location() = if res == "enoent" { 2 } else { 13 }; } return Some(-1); }
      let kfd = unsafe { libc::eventfd(0, libc::EFD_NONBLOCK | libc::EFD_CLOEXEC) };
      s.workers.push(Worker { dev: d, kfd, wfd: -1, tid: 0, end: None, exited: false, grabbed: false });
      s.opening = Some(s.workers.len() - 1);
      return Some(kfd);
    }
    if path == "/dev/uinput" {
      if let Some(w) = s.opening {
        let wfd = unsafe { libc::eventfd(0, libc::EFD_NONBLOCK | libc::EFD_CLOEXEC) };
        s.workers[w].wfd = wfd;
        s.log.push(json!({"c": "uopen", "w": w + 1, "d": s.devs[s.workers[w].dev].id}));
        return Some(wfd);
      }
    }
    if path.starts_with("/dev/input/") {
      // a node outside the universe (the excluded keyboard, the mouse, the virtual keyboard): opening it at all is what the trace must show
      s.log.push(json!({"c": "kopen", "d": path, "res": "foreign", "flags": flags, "bysup": gettid() == s.sup_tid}));
      unsafe { *libc::__errno_location() = 13; }
      return Some(-1);
    }
    None
  })
}

// std::fs::read_to_string("/proc/bus/input/devices") of list_keyboards: logged, and made to fail once the schedule is over
pub fn hook_open64(path: &str) -> Option<i32> {
  with_sup(|s| {
    if path != "/proc/bus/input/devices" { return None; }
    if s.listfail {
      s.log.push(json!({"c": "list", "res": "fail", "present": []}));
      unsafe { *libc::__errno_location() = 5; }
      return Some(-1);
    }
    let ids: Vec<String> = s.devs.iter().enumerate().filter(|(i, _)| s.present[*i]).map(|(_, d)| d.id.clone()).collect();
    s.log.push(json!({"c": "list", "res": "ok", "present": ids}));
    None      // the kernel opens the real (bind-mounted) file
  })
}

pub fn hook_ioctl(fd: i32, req: libc::c_ulong, arg: *mut libc::c_void) -> Option<(i32, i32)> {
  with_sup(|s| {
    let w = s.worker_of_fd(fd)?;
    let (ty, nr, size) = (((req >> 8) & 0xff) as u8, (req & 0xff) as u32, ((req >> 16) & 0x3fff) as usize);
    if fd == s.workers[w].kfd && ty == b'E' && nr == 0x18 {
      let buf = unsafe { std::slice::from_raw_parts_mut(arg as *mut u8, size) };
      for b in buf.iter_mut() { *b = 0; }
      return Some((size as i32, 0));
    }
    if fd == s.workers[w].kfd && ty == b'E' && nr == 0x90 {
      let d = s.workers[w].dev;
      let busy = match s.grab[d] { Some(o) => o != w, None => false };
      s.log.push(json!({"c": "grab", "w": w + 1, "d": s.devs[d].id, "res": if busy { "ebusy" } else { "ok" }}));
      if busy { return Some((-1, 16)); }
      s.grab[d] = Some(w);
      s.workers[w].grabbed = true;
      return Some((0, 0));
    }
    if fd == s.workers[w].wfd && ty == b'U' && nr == 1 {
      s.log.push(json!({"c": "created", "w": w + 1, "d": s.devs[s.workers[w].dev].id}));
      s.opening = None;
      return Some((0, 0));
    }
    Some((0, 0))
  })
}

pub fn hook_write(fd: i32, buf: *const u8, count: usize) -> Option<(isize, i32)> {
  with_sup(|s| {
    if fd == 2 {
      let text = String::from_utf8_lossy(unsafe { std::slice::from_raw_parts(buf, count) }).into_owned();
      if !text.trim().is_empty() { s.log.push(json!({"c": "msg", "text": text.trim_end().chars().take(200).collect::<String>()})); }
      return Some((count as isize, 0));
    }
    let w = s.worker_of_fd(fd)?;
    if fd == s.workers[w].wfd { return Some((count as isize, 0)); }
    None
  })
}

// a worker's read of its keyboard: nothing to read until the script ends the worker
fn worker_read(s: &mut Sup, w: usize) -> (isize, i32) {
  if s.workers[w].tid == 0 { s.workers[w].tid = gettid(); }
  match s.workers[w].end {
    None => (-1, 11),
    Some("ok") => (-1, 19),
    Some(_) => (-1, 5)
  }
}

fn is_inotify(fd: i32) -> bool {
  match std::fs::read_link(format!("/proc/self/fd/{}", fd)) { Ok(p) => p.to_string_lossy() == "anon_inode:inotify", Err(_) => false }
}

// The supervisor's inotify read: the next step of the schedule is applied first. Returns None: the real read follows.
pub fn hook_read(fd: i32) -> Option<(isize, i32)> {
  // (1) a worker's keyboard
  let r = with_sup(|s| {
    if let Some(w) = s.worker_of_fd(fd) { if fd == s.workers[w].kfd { return Some(Some(worker_read(s, w))); } }
    if s.inotify_fd < 0 && gettid() == s.sup_tid && is_inotify(fd) { s.inotify_fd = fd; }
    if fd == s.inotify_fd { Some(None) } else { None }
  });
  match r {
    None => return None,
    Some(Some(x)) => return Some(x),
    Some(None) => ()
  }
  // (2) the supervisor waits. Let every worker it has spawned reach its first read (so that its thread is known), then apply the step.
  let deadline = std::time::Instant::now() + std::time::Duration::from_secs(5);
  loop {
    let pending = with_sup(|s| Some(s.workers.iter().any(|w| w.grabbed && w.wfd >= 0 && w.tid == 0 && w.end.is_none()))).unwrap_or(false);
    if !pending || std::time::Instant::now() > deadline { break; }
    // a worker's loop reads until EAGAIN only after a readiness report: nudge it once
    with_sup(|s| { for w in s.workers.iter() { if w.grabbed && w.wfd >= 0 && w.tid == 0 { let one: u64 = 1; unsafe { libc::syscall(libc::SYS_write, w.kfd, &one as *const u64, 8); } } } Some(()) });
    std::thread::sleep(std::time::Duration::from_millis(1));
  }
  let mut to_end: Vec<usize> = vec![];
  with_sup(|s| {
    s.log.push(json!({"c": "wait"}));
    match s.steps.pop_front() {
      None => {
        // the schedule is over: the list becomes unreadable and one more event wakes the supervisor
        s.listfail = true;
        s.touchn += 1;
        let _ = std::fs::File::create(format!("/dev/input/.verif-touch-{}", s.touchn));
        s.log.push(json!({"c": "env", "a": "listfail", "d": "", "x": ""}));
      },
      Some(step) => {
        for l in step.iter() {
          let (a, d, x) = (l["a"].as_str().unwrap_or(""), l["d"].as_str().unwrap_or(""), l["x"].as_str().unwrap_or(""));
          s.log.push(json!({"c": "env", "a": a, "d": d, "x": x}));
          match a {
            "appear" => {
              let i = s.dev_of(d).unwrap();
              s.present[i] = true; s.badperm[i] = x == "bad"; s.grab[i] = None;
              s.rewrite_list();
              let _ = std::fs::File::create(&s.devs[i].node);        // IN_CREATE
            },
            "fixperm" => {
              let i = s.dev_of(d).unwrap();
              s.badperm[i] = false;
              let c = std::ffi::CString::new(s.devs[i].node.clone()).unwrap();
              unsafe { libc::chmod(c.as_ptr(), 0o660); }               // IN_ATTRIB
            },
            "vanish" => {
              let i = s.dev_of(d).unwrap();
              s.present[i] = false; s.badperm[i] = false;
              s.rewrite_list();
              let _ = std::fs::remove_file(&s.devs[i].node);           // IN_DELETE is not watched
            },
            "touch" => {
              s.touchn += 1;
              let _ = std::fs::File::create(format!("/dev/input/.verif-touch-{}", s.touchn));
            },
            "end" => {
              let i = s.dev_of(d).unwrap();
              // the worker of that device that is still running (there is at most one; the newest if the code made more)
              if let Some(w) = (0..s.workers.len()).rev().find(|w| s.workers[*w].dev == i && s.workers[*w].end.is_none() && s.workers[*w].grabbed && s.workers[*w].wfd >= 0) {
                s.workers[w].end = Some(if x == "ok" { "ok" } else { "err" });
                let one: u64 = 1;
                unsafe { libc::syscall(libc::SYS_write, s.workers[w].kfd, &one as *const u64, 8); }
                to_end.push(w);
              } else {
                s.log.push(json!({"c": "noworker", "d": d}));
              }
            },
            _ => ()
          }
        }
      }
    }
    Some(())
  });
  // (3) wait until the threads of the workers that were told to end have exited (their `done` flags are set before that)
  for w in to_end {
    let deadline = std::time::Instant::now() + std::time::Duration::from_secs(5);
    loop {
      let (tid, known) = with_sup(|s| Some((s.workers[w].tid, s.workers[w].tid != 0))).unwrap();
      if known && !task_alive(tid) { break; }
      if std::time::Instant::now() > deadline { break; }
      std::thread::sleep(std::time::Duration::from_micros(300));
    }
    with_sup(|s| {
      let tid = s.workers[w].tid;
      let exited = tid != 0 && !task_alive(tid);
      s.workers[w].exited = exited;
      let d = s.devs[s.workers[w].dev].id.clone();
      s.log.push(json!({"c": "wend", "w": w + 1, "d": d, "res": s.workers[w].end.unwrap_or(""), "exited": exited}));
      Some(())
    });
  }
  None
}

// --------------------------------------------------------------------------------------------- the runs
// cases.ndjson: {id, devs: [{id, node, entry}], always: text, excludes: [..], sched: [[{a,d,x}..]..], devices_file}
pub fn cmd_supervise(path: &str) {
  let out = std::io::stdout();
  for line in std::fs::read_to_string(path).unwrap().lines() {
    if line.trim().is_empty() { continue; }
    let c: Value = serde_json::from_str(line).unwrap();
    let devs: Vec<SupDev> = c["devs"].as_array().unwrap().iter().map(|d| SupDev {
      id: d["id"].as_str().unwrap().to_string(), node: d["node"].as_str().unwrap().to_string(), entry: d["entry"].as_str().unwrap().to_string() }).collect();
    let n = devs.len();
    let steps: VecDeque<Vec<Value>> = c["sched"].as_array().unwrap().iter().map(|s| s.as_array().unwrap().clone()).collect();
    let sup = Sup { devs, present: vec![false; n], badperm: vec![false; n], grab: vec![None; n], always: c["always"].as_str().unwrap_or("").to_string(),
                    steps, log: vec![], workers: vec![], opening: None, listfail: false, devices_file: c["devices_file"].as_str().unwrap().to_string(),
                    inotify_fd: -1, touchn: 0, sup_tid: gettid() };
    sup.rewrite_list();
    // leftovers of the previous run
    if let Ok(rd) = std::fs::read_dir("/dev/input") { for e in rd.flatten() { let _ = std::fs::remove_file(e.path()); } }
    *GSUP.lock().unwrap_or_else(|e| e.into_inner()) = Some(sup);
    let layout: Layout = Layout { mappings: vec![] };      // the layout plays no part in what the supervisor does
    let excludes: Vec<String> = c["excludes"].as_array().map(|a| a.iter().map(|x| x.as_str().unwrap_or("").to_string()).collect()).unwrap_or_default();
    let exrefs: Vec<&str> = excludes.iter().map(|s| s.as_str()).collect();
    let r = std::panic::catch_unwind(std::panic::AssertUnwindSafe(|| crate::remapping_loop::do_remapping_loop_auto_all_devices(&layout, &exrefs, false)));
    let sup = GSUP.lock().unwrap_or_else(|e| e.into_inner()).take().unwrap();
    let (ret, text) = match r { Ok(Ok(())) => ("ok", String::new()), Ok(Err(e)) => ("err", e), Err(e) => ("panic", panic_msg(e)) };
    let left = sup.steps.len();
    let mut o = out.lock();
    writeln!(o, "{}", json!({"c": "reset", "id": c["id"], "devs": sup.devs.iter().map(|d| d.id.clone()).collect::<Vec<_>>(), "steps": c["sched"].as_array().unwrap().len()})).unwrap();
    for rec in sup.log.iter() { writeln!(o, "{}", rec).unwrap(); }
    writeln!(o, "{}", json!({"c": "ret", "res": ret, "text": text.chars().take(200).collect::<String>(), "left": left})).unwrap();
    // workers that are still running belong to this run: let them go (their devices are gone for good)
    for w in sup.workers.iter() { if w.end.is_none() && w.kfd >= 0 { /* the thread stays parked in its epoll; the process ends after the last run */ } }
  }
}

// --------------------------------------------------------------------------------------------- the static fleet
// `remap --all-keyboards` (do_remapping_loop_all_devices) and `remap --dev-file ... --only-if-keyboard`
// (do_remapping_loop_multiple_devices -> filter_devices_verbose), both ending in do_remapping_loop_these_devices: every
// selected device is opened in list order (the first failing open ends everything), one worker thread per device, the
// threads are joined in list order. Same namespace, same scripted device nodes as the supervisor runs. The function under
// test runs in a thread of its own; this thread is the environment: when every worker the function has started has reached
// its first read (or the function has returned), the workers are told to end in the order the schedule gives
// (spec/Fleet.tla), one at a time, each awaited until its thread has exited. cases.ndjson: {id, mode: "all" | "files",
// devs, always, excludes, present: [ids], bad: [ids], files: [paths], ends: [[id, "ok"|"err"]..], devices_file}.
// Validated by spec/FleetTrace.tla. No judgement here.
fn fleet_settled() -> bool {
  // every worker that has its uinput device has reached its first read
  loop {
    let pending = with_sup(|s| Some(s.workers.iter().any(|w| w.grabbed && w.wfd >= 0 && w.tid == 0 && w.end.is_none()))).unwrap_or(false);
    if !pending { return true; }
    with_sup(|s| { for w in s.workers.iter() { if w.grabbed && w.wfd >= 0 && w.tid == 0 { let one: u64 = 1; unsafe { libc::syscall(libc::SYS_write, w.kfd, &one as *const u64, 8); } } } Some(()) });
    std::thread::sleep(std::time::Duration::from_millis(1));
    return false;
  }
}

pub fn cmd_fleet(path: &str) {
  use std::sync::{Arc, atomic::{AtomicBool, Ordering}};
  let out = std::io::stdout();
  for line in std::fs::read_to_string(path).unwrap().lines() {
    if line.trim().is_empty() { continue; }
    let c: Value = serde_json::from_str(line).unwrap();
    let devs: Vec<SupDev> = c["devs"].as_array().unwrap().iter().map(|d| SupDev {
      id: d["id"].as_str().unwrap().to_string(), node: d["node"].as_str().unwrap().to_string(), entry: d["entry"].as_str().unwrap().to_string() }).collect();
    let n = devs.len();
    let has = |key: &str, id: &str| c[key].as_array().map(|a| a.iter().any(|x| x.as_str() == Some(id))).unwrap_or(false);
    let present: Vec<bool> = devs.iter().map(|d| has("present", &d.id)).collect();
    let badperm: Vec<bool> = devs.iter().map(|d| has("bad", &d.id)).collect();
    if let Ok(rd) = std::fs::read_dir("/dev/input") { for e in rd.flatten() { let _ = std::fs::remove_file(e.path()); } }
    for (i, d) in devs.iter().enumerate() { if present[i] { let _ = std::fs::File::create(&d.node); } }
    // the nodes of the devices that are listed all the time exist as well (a path given with --dev-file must resolve)
    if let Some(a) = c["always_nodes"].as_array() { for x in a { let _ = std::fs::File::create(x.as_str().unwrap_or("/dev/input/none")); } }
    let sup = Sup { devs, present, badperm, grab: vec![None; n], always: c["always"].as_str().unwrap_or("").to_string(),
                    steps: VecDeque::new(), log: vec![], workers: vec![], opening: None, listfail: false, devices_file: c["devices_file"].as_str().unwrap().to_string(),
                    inotify_fd: -2, touchn: 0, sup_tid: 0 };
    sup.rewrite_list();
    *GSUP.lock().unwrap_or_else(|e| e.into_inner()) = Some(sup);
    let excludes: Vec<String> = c["excludes"].as_array().map(|a| a.iter().map(|x| x.as_str().unwrap_or("").to_string()).collect()).unwrap_or_default();
    let files: Vec<String> = c["files"].as_array().map(|a| a.iter().map(|x| x.as_str().unwrap_or("").to_string()).collect()).unwrap_or_default();
    let mode_all = c["mode"].as_str() != Some("files");
    let finished = Arc::new(AtomicBool::new(false));
    let fin2 = Arc::clone(&finished);
    let th = std::thread::spawn(move || {
      with_sup(|s| { s.sup_tid = gettid(); Some(()) });
      let layout: Layout = Layout { mappings: vec![] };
      let exrefs: Vec<&str> = excludes.iter().map(|s| s.as_str()).collect();
      let frefs: Vec<&str> = files.iter().map(|s| s.as_str()).collect();
      let r = std::panic::catch_unwind(std::panic::AssertUnwindSafe(|| {
        if mode_all { crate::remapping_loop::do_remapping_loop_all_devices(&layout, &exrefs, false) }
        else { crate::remapping_loop::do_remapping_loop_multiple_devices(&frefs, true, &exrefs, &layout, &None, false) }
      }));
      fin2.store(true, Ordering::SeqCst);
      r
    });
    let note_ret = |fin: &AtomicBool, noted: &mut bool| { if !*noted && fin.load(Ordering::SeqCst) { *noted = true; with_sup(|s| { s.log.push(json!({"c": "returned"})); Some(()) }); } };
    let mut noted = false;
    // (1) the start-up: until the function has returned or all its workers wait for input (and nothing more is opened for 30 ms)
    let deadline = std::time::Instant::now() + std::time::Duration::from_secs(5);
    let mut quiet_since = std::time::Instant::now();
    let mut last_n = usize::MAX;
    loop {
      if finished.load(Ordering::SeqCst) || std::time::Instant::now() > deadline { break; }
      let nw = with_sup(|s| Some(s.workers.len() + s.log.len())).unwrap_or(0);
      if nw != last_n || !fleet_settled() { last_n = nw; quiet_since = std::time::Instant::now(); }
      else if quiet_since.elapsed() > std::time::Duration::from_millis(30) && nw > 0 && with_sup(|s| Some(s.opening.is_none())).unwrap_or(true) { break; }
      std::thread::sleep(std::time::Duration::from_micros(500));
    }
    with_sup(|s| { s.log.push(json!({"c": "settled"})); Some(()) });
    note_ret(&finished, &mut noted);
    // (2) the workers end in the scheduled order
    let mut left = 0;
    for e in c["ends"].as_array().cloned().unwrap_or_default() {
      let (d, x) = (e[0].as_str().unwrap_or("").to_string(), e[1].as_str().unwrap_or("ok").to_string());
      let w = with_sup(|s| {
        let i = s.dev_of(&d)?;
        let w = (0..s.workers.len()).rev().find(|w| s.workers[*w].dev == i && s.workers[*w].end.is_none() && s.workers[*w].grabbed && s.workers[*w].wfd >= 0 && s.workers[*w].tid != 0)?;
        s.workers[w].end = Some(if x == "ok" { "ok" } else { "err" });
        let one: u64 = 1;
        unsafe { libc::syscall(libc::SYS_write, s.workers[w].kfd, &one as *const u64, 8); }
        Some(w)
      });
      match w {
        None => { left += 1; with_sup(|s| { s.log.push(json!({"c": "noworker", "d": d})); Some(()) }); },
        Some(w) => {
          let deadline = std::time::Instant::now() + std::time::Duration::from_secs(5);
          loop {
            let tid = with_sup(|s| Some(s.workers[w].tid)).unwrap_or(0);
            if tid != 0 && !task_alive(tid) { break; }
            if std::time::Instant::now() > deadline { break; }
            std::thread::sleep(std::time::Duration::from_micros(300));
          }
          with_sup(|s| {
            let tid = s.workers[w].tid;
            let exited = tid != 0 && !task_alive(tid);
            s.workers[w].exited = exited;
            s.log.push(json!({"c": "wend", "w": w + 1, "d": d, "res": s.workers[w].end.unwrap_or(""), "exited": exited}));
            Some(())
          });
          // give the function a moment to notice (it is logged where it is first seen to have returned; later is not held against it)
          let t = std::time::Instant::now();
          while !finished.load(Ordering::SeqCst) && t.elapsed() < std::time::Duration::from_millis(15) { std::thread::sleep(std::time::Duration::from_micros(300)); }
          note_ret(&finished, &mut noted);
        }
      }
    }
    // (3) the function must have returned by now (every worker the schedule knows of has ended); wait for it, then force the rest
    let t = std::time::Instant::now();
    while !finished.load(Ordering::SeqCst) && t.elapsed() < std::time::Duration::from_millis(1500) { std::thread::sleep(std::time::Duration::from_millis(1)); }
    note_ret(&finished, &mut noted);
    let hang = !finished.load(Ordering::SeqCst);
    if hang {
      with_sup(|s| {
        s.log.push(json!({"c": "hang"}));
        for w in 0..s.workers.len() { if s.workers[w].end.is_none() { s.workers[w].end = Some("ok"); let one: u64 = 1; unsafe { libc::syscall(libc::SYS_write, s.workers[w].kfd, &one as *const u64, 8); } } }
        Some(())
      });
    }
    let r = th.join().unwrap_or_else(|e| Err(e));
    // workers the function left running when it returned: their devices go away now, so that the threads end
    with_sup(|s| { for w in 0..s.workers.len() { if s.workers[w].end.is_none() { s.workers[w].end = Some("ok"); let one: u64 = 1; unsafe { libc::syscall(libc::SYS_write, s.workers[w].kfd, &one as *const u64, 8); } } } Some(()) });
    std::thread::sleep(std::time::Duration::from_millis(2));
    let sup = GSUP.lock().unwrap_or_else(|e| e.into_inner()).take().unwrap();
    let (ret, text) = match r { Ok(Ok(())) => ("ok", String::new()), Ok(Err(e)) => ("err", e), Err(e) => ("panic", panic_msg(e)) };
    let mut o = out.lock();
    writeln!(o, "{}", json!({"c": "reset", "id": c["id"], "mode": if mode_all { "all" } else { "files" }, "devs": sup.devs.iter().map(|d| d.id.clone()).collect::<Vec<_>>(),
                             "present": c["present"], "bad": c["bad"], "given": c["given"]})).unwrap();
    for rec in sup.log.iter() { writeln!(o, "{}", rec).unwrap(); }
    writeln!(o, "{}", json!({"c": "ret", "res": ret, "text": text.chars().take(200).collect::<String>(), "left": left, "hang": hang})).unwrap();
  }
}
