// Tabulates the real Mapper::step and Mapper::release_all, state by state.
//
// For each job (a layout, a key alphabet, a bound N on physically held keys) a breadth-first
// search over (mapper state, physically held set) is run with EVERY press and release of every
// alphabet key — well-formed or not — subject only to |held| <= N. Each distinct mapper state
// gets an id and one table line with, per event, the successor id, the emitted events and the
// repeat instruction, plus the result of release_all from that state. The states release_all leads
// to are explored too (with nothing physically held), so the table is closed under it.
// A panic of for_layout / step / release_all is recorded as data (n = -1), never propagated.
use crate::j::*;
use crate::keys::{Layout, KeyCode, Event};
use crate::keys::Event::{Pressed, Released};
use crate::key_transforms::{Mapper, VerifState, ResultingRepeat};
use serde_json::{json, Value};
use std::collections::{HashMap, HashSet, VecDeque, BTreeSet};
use std::io::Write;
use std::panic::{catch_unwind, AssertUnwindSafe};

// the Debug text of the largest state of the unchanged tree (three active mappings of the longest built-in) is below 1 500 characters
const MAX_STATE_TEXT: usize = 2500;

struct Job { id: String, layout: Option<Layout>, load_err: String, keys: Vec<KeyCode>, maxheld: usize,
             // what the SPECIFICATION says the source means (Fancy!Expand), when the layout came through the real loader: the table is
             // the real loader's + the real mapper's, the layout the properties are judged against is the reference one
             layout_ref: Option<Value> }

struct Tabled {
  hdr: Value,
  lines: Vec<String>,  // finished state lines (ids already positions in the shard)
  states: usize, transitions: usize, panics: usize, truncated: bool
}

fn tabulate_one(job: &Job, maxstates: usize, total: &std::sync::atomic::AtomicUsize, budget: usize, base: usize, li: usize) -> Tabled {
  use std::sync::atomic::Ordering::Relaxed;
  let keys = &job.keys;
  let evlist: Vec<Event> = keys.iter().flat_map(|k| vec![Pressed(*k), Released(*k)]).collect();
  let mk_hdr = |layout: Value, count: usize, truncated: bool, panic: String, panics: Vec<Value>| json!({
    "id": job.id, "layout": job.layout_ref.clone().unwrap_or(layout), "keys": jkeys(keys), "maxheld": job.maxheld,
    "first": 0, "count": count, "truncated": truncated, "panic": panic, "panics": panics, "rejected": ""
  });
  let layout = match &job.layout {
    None => {
      // the real loader did not accept the source (an error message, or a panic of the loader: both recorded, neither is a panic of the mapper)
      let mut h = mk_hdr(json!([]), 0, false, String::new(), vec![]);
      h["rejected"] = json!(job.load_err);
      return Tabled { hdr: h, lines: vec![], states: 0, transitions: 0, panics: 0, truncated: false }
    },
    Some(l) => l
  };
  let mut mapper = match catch_unwind(AssertUnwindSafe(|| Mapper::for_layout(layout))) {
    Ok(m) => m,
    Err(e) => return Tabled { hdr: mk_hdr(jlayout(layout), 0, false, panic_msg(e), vec![]), lines: vec![], states: 0, transitions: 0, panics: 1, truncated: false }
  };
  // states are identified by a 128-bit hash of their Debug text (the text itself would dominate memory when a change makes states grow)
  fn h128(s: &str) -> (u64, u64) {
    use std::hash::{Hash, Hasher};
    let mut a = std::collections::hash_map::DefaultHasher::new(); s.hash(&mut a);
    let mut b = std::collections::hash_map::DefaultHasher::new(); (s, 0x9e3779b97f4a7c15u64).hash(&mut b);
    (a.finish(), b.finish())
  }
  let mut ids: HashMap<(u64, u64), usize> = HashMap::new();
  let mut states: Vec<VerifState> = vec![];
  let mut seen: HashSet<(usize, BTreeSet<KeyCode>)> = HashSet::new();
  let mut q: VecDeque<(usize, BTreeSet<KeyCode>)> = VecDeque::new();
  let init = mapper.verif_snapshot();
  ids.insert(h128(&format!("{:?}", init)), 0); states.push(init);
  q.push_back((0, BTreeSet::new())); seen.insert((0, BTreeSet::new()));
  // (sid, event index) -> (successor or -1 for panic, events, repeat)
  let mut table: HashMap<(usize, usize), (i64, Vec<Event>, ResultingRepeat)> = HashMap::new();
  let mut ra: HashMap<usize, (i64, Vec<Event>)> = HashMap::new();
  let mut panics: Vec<Value> = vec![];
  let mut truncated = false;
  let mut transitions = 0usize;
  loop {
    while let Some((sid, ph)) = q.pop_front() {
      for (ei, ev) in evlist.iter().enumerate() {
        let mut ph2 = ph.clone();
        match ev {
          Pressed(k) => { if !ph.contains(k) && ph.len() >= job.maxheld { continue; } ph2.insert(*k); },
          Released(k) => { ph2.remove(k); }
        }
        let nid: i64 = match table.get(&(sid, ei)) {
          Some((n, _, _)) => *n,
          None => {
            mapper.verif_restore(&states[sid]);
            transitions += 1;
            match catch_unwind(AssertUnwindSafe(|| mapper.step(ev.clone()))) {
              Err(e) => {
                panics.push(json!({"sid": sid + 1, "op": format!("{:?}", ev), "msg": panic_msg(e)}));
                table.insert((sid, ei), (-1, vec![], ResultingRepeat::NoChange));
                -1
              },
              Ok(r) => {
                let ns = mapper.verif_snapshot();
                let key = format!("{:?}", ns);
                let hk = h128(&key);
                let n = match ids.get(&hk) {
                  Some(i) => *i as i64,
                  None => {
                    // a state whose text is this long has unboundedly growing lists (a change that never releases / keeps re-adding keys): not explored further
                    if states.len() >= maxstates || key.len() > MAX_STATE_TEXT || (states.len() >= 2000 && total.load(Relaxed) > budget) { truncated = true; -2 }
                    else { total.fetch_add(1, Relaxed); let i = states.len(); ids.insert(hk, i); states.push(ns); i as i64 }
                  }
                };
                if n >= 0 { table.insert((sid, ei), (n, r.events, r.repeat)); }
                n
              }
            }
          }
        };
        if nid >= 0 && seen.insert((nid as usize, ph2.clone())) { q.push_back((nid as usize, ph2)); }
      }
    }
    // close under release_all
    let mut grew = false;
    for sid in 0..states.len() {
      if ra.contains_key(&sid) { continue; }
      mapper.verif_restore(&states[sid]);
      match catch_unwind(AssertUnwindSafe(|| mapper.release_all())) {
        Err(e) => {
          panics.push(json!({"sid": sid + 1, "op": "release_all", "msg": panic_msg(e)}));
          ra.insert(sid, (-1, vec![]));
        },
        Ok(evs) => {
          let ns = mapper.verif_snapshot();
          let key = format!("{:?}", ns);
          let hk = h128(&key);
          let n = match ids.get(&hk) {
            Some(i) => *i as i64,
            None => {
              if states.len() >= maxstates || key.len() > MAX_STATE_TEXT || (states.len() >= 2000 && total.load(Relaxed) > budget) { truncated = true; -2 }
              else { total.fetch_add(1, Relaxed); let i = states.len(); ids.insert(hk, i); states.push(ns); i as i64 }
            }
          };
          ra.insert(sid, (n, evs));
          if n >= 0 && seen.insert((n as usize, BTreeSet::new())) { q.push_back((n as usize, BTreeSet::new())); grew = true; }
        }
      }
    }
    if !grew && q.is_empty() { break; }
  }
  // local 1-based ids become positions in the shard (base = lines already in it); lines are serialised at once (a Value tree per
  // state would dominate memory)
  let gid = |n: i64| -> i64 { if n >= 0 { n + 1 + base as i64 } else { n } };
  let mut lines: Vec<String> = Vec::with_capacity(states.len());
  for (sid, s) in states.iter().enumerate() {
    let mut tr = vec![];
    for ei in 0..evlist.len() {
      tr.push(match table.get(&(sid, ei)) {
        Some((n, evs, rep)) => json!({"n": gid(*n), "ev": jevs(evs), "rep": jrep(rep)}),
        None => json!({"n": 0, "ev": [], "rep": {"kind": "NoChange"}})
      });
    }
    let raj = match ra.get(&sid) {
      Some((n, evs)) if *n >= 0 => json!({"n": gid(*n), "ev": jevs(evs)}),
      Some((n, _)) if *n == -1 => json!({"n": -1, "ev": []}),
      _ => json!({"n": 0, "ev": []})
    };
    lines.push(json!({"st": jstate(s), "tr": tr, "ra": raj, "l": li}).to_string());
  }
  let np = panics.len();
  Tabled { hdr: mk_hdr(jlayout(layout), states.len(), truncated, "".to_string(), panics), lines, states: states.len(), transitions, panics: np, truncated }
}

pub fn cmd_tabulate(jobs_path: &str, outdir: &str, threads: usize) {
  let text = std::fs::read_to_string(jobs_path).unwrap_or_else(|e| { eprintln!("cannot read {}: {}", jobs_path, e); std::process::exit(2) });
  let root: Value = serde_json::from_str(&text).unwrap_or_else(|e| { eprintln!("bad jobs file: {}", e); std::process::exit(2) });
  let maxstates = root["maxstates"].as_u64().unwrap_or(50000) as usize;
  // once the whole run has recorded this many states every further layout is cut at 2 000 (disk and time stay bounded for a
  // change of the code that makes the state space explode)
  let budget = root["budget"].as_u64().unwrap_or(u64::MAX) as usize;
  let total = std::sync::Arc::new(std::sync::atomic::AtomicUsize::new(0));
  // a shard file is closed once it holds this many table states, so that neither this process nor
  // the TLC process that loads the shard needs memory proportional to the whole family
  let shard_states = root["shard_states"].as_u64().unwrap_or(40000) as usize;
  let mut jobs: Vec<Job> = vec![];
  for jv in root["jobs"].as_array().expect("jobs") {
    let keys = pkeys(&jv["keys"]).unwrap_or_else(|e| { eprintln!("bad keys: {}", e); std::process::exit(2) });
    let (layout, load_err) = if jv.get("fancy").is_some() {
      // through the real loader; a panic of the loader is data as well
      match catch_unwind(|| load_value(&jv["fancy"])) {
        Ok(Ok(l)) => (Some(l), String::new()),
        Ok(Err(e)) => (None, e),
        Err(e) => (None, format!("panic: {}", panic_msg(e)))
      }
    } else {
      match playout(&jv["layout"]) { Ok(l) => (Some(l), String::new()), Err(e) => { eprintln!("bad layout in job: {}", e); std::process::exit(2) } }
    };
    jobs.push(Job { id: jv["id"].as_str().unwrap_or("").to_string(), layout, load_err, keys, maxheld: jv["maxheld"].as_u64().unwrap_or(3) as usize,
                    layout_ref: jv.get("layout_ref").cloned() });
  }
  std::fs::create_dir_all(outdir).unwrap();
  let jobs = std::sync::Arc::new(jobs);
  let mut handles = vec![];
  for th in 0..threads {
    let jobs = jobs.clone();
    let outdir = outdir.to_string();
    let total = total.clone();
    handles.push(std::thread::spawn(move || {
      let mut hdrs: Vec<Value> = vec![];
      let mut body: Vec<String> = vec![];
      let mut nfiles = 0usize;
      let (mut nl, mut st, mut tr, mut pn, mut tc) = (0usize, 0usize, 0usize, 0usize, 0usize);
      let flush = |hdrs: &mut Vec<Value>, body: &mut Vec<String>, nfiles: &mut usize| {
        if hdrs.is_empty() { return; }
        let path = format!("{}/shard_{}_{}.ndjson", outdir, th, nfiles);
        let mut f = std::io::BufWriter::new(std::fs::File::create(&path).unwrap());
        writeln!(f, "{}", json!({"layouts": hdrs})).unwrap();
        for l in body.iter() { writeln!(f, "{}", l).unwrap(); }
        hdrs.clear(); body.clear(); *nfiles += 1;
      };
      for (ji, job) in jobs.iter().enumerate() {
        if ji % threads != th { continue; }
        let cap = if total.load(std::sync::atomic::Ordering::Relaxed) > budget { std::cmp::min(maxstates, 2000) } else { maxstates };
        let base = body.len();
        let mut t = tabulate_one(job, cap, &total, budget, base, hdrs.len() + 1);
        if t.states > 0 { t.hdr["first"] = json!(base + 1); }
        body.append(&mut t.lines);
        hdrs.push(t.hdr);
        nl += 1; st += t.states; tr += t.transitions; pn += t.panics; if t.truncated { tc += 1; }
        if body.len() >= shard_states || body.iter().map(|l| l.len()).sum::<usize>() > 96_000_000 { flush(&mut hdrs, &mut body, &mut nfiles); }
      }
      flush(&mut hdrs, &mut body, &mut nfiles);
      (nl, st, tr, pn, tc, nfiles)
    }));
  }
  let mut tot = (0usize, 0usize, 0usize, 0usize, 0usize, 0usize);
  for h in handles { let r = h.join().unwrap(); tot.0 += r.0; tot.1 += r.1; tot.2 += r.2; tot.3 += r.3; tot.4 += r.4; tot.5 += r.5; }
  println!("{}", json!({"layouts": tot.0, "table_states": tot.1, "impl_steps": tot.2, "panics": tot.3, "truncated_layouts": tot.4, "shards": tot.5}));
}

// ---------------------------------------------------------------------------------------------
// Random deep walks: long random histories of the real mapper over a (possibly large) alphabet with
// up to `maxheld` keys held, well-formed and ill-formed events and occasional release_all, recorded
// step by step with the state snapshot after each step. Complements the exhaustive tables (which
// are bounded to small alphabets and 3-4 held keys); validated by TLC as traces (spec/MapperTrace.tla).
struct Lcg(u64);
impl Lcg {
  fn next(&mut self) -> u64 { self.0 = self.0.wrapping_mul(6364136223846793005).wrapping_add(1442695040888963407); self.0 >> 33 }
  fn below(&mut self, n: usize) -> usize { (self.next() % (n as u64)) as usize }
}

pub fn cmd_walk(jobs_path: &str) {
  let text = std::fs::read_to_string(jobs_path).unwrap_or_else(|e| { eprintln!("cannot read {}: {}", jobs_path, e); std::process::exit(2) });
  let root: Value = serde_json::from_str(&text).unwrap_or_else(|e| { eprintln!("bad jobs file: {}", e); std::process::exit(2) });
  let out = std::io::stdout();
  let mut out = std::io::BufWriter::new(out.lock());
  for jv in root["jobs"].as_array().expect("jobs") {
    let layout = if jv.get("fancy").is_some() {
      match catch_unwind(|| load_value(&jv["fancy"])) { Ok(Ok(l)) => l, _ => continue }
    } else {
      match playout(&jv["layout"]) { Ok(l) => l, Err(e) => { eprintln!("bad layout in job: {}", e); std::process::exit(2) } }
    };
    // "auto": every key the layout mentions plus two foreign keys (a modifier and an ordinary key)
    let keys: Vec<KeyCode> = if jv["keys"].as_str() == Some("auto") {
      let mut ks: Vec<KeyCode> = vec![];
      for m in &layout.mappings { for k in m.from.iter().chain(m.to.iter()) { if !ks.contains(k) { ks.push(*k); } } }
      for k in [KeyCode::F5, KeyCode::RIGHTMETA].iter() { if !ks.contains(k) { ks.push(*k); } }
      ks
    } else { pkeys(&jv["keys"]).unwrap_or_else(|e| { eprintln!("bad keys: {}", e); std::process::exit(2) }) };
    let maxheld = jv["maxheld"].as_u64().unwrap_or(5) as usize;
    let steps = jv["steps"].as_u64().unwrap_or(1000) as usize;
    let mut rng = Lcg(jv["seed"].as_u64().unwrap_or(1).wrapping_mul(2654435761).wrapping_add(12345));
    let mut mapper = match catch_unwind(AssertUnwindSafe(|| Mapper::for_layout(&layout))) { Ok(m) => m, Err(_) => continue };
    // out = "looptrace": the run through the loop is written as a call trace for LoopTrace.tla (C10/C12 monitors) instead of as walk steps
    let as_loop_trace = jv["via"].as_str() == Some("loop") && jv["out"].as_str() == Some("looptrace");
    if !as_loop_trace {
      writeln!(out, "{}", json!({"c": "reset", "id": jv["id"], "layout": jlayout(&layout), "keys": jkeys(&keys), "maxheld": maxheld})).unwrap();
    }
    let mut held: Vec<KeyCode> = vec![];
    // a given history is followed exactly (replay); otherwise the walk is random
    let script: Option<Vec<Value>> = jv.get("history").and_then(|h| h.as_array().cloned());
    let steps = script.as_ref().map(|h| h.len()).unwrap_or(steps);
    // the history first (None = the tablet-mode reset), then the run
    // None = the tablet-mode reset; the events listed with it happen while tablet mode is on (key activity the mapper never sees)
    let mut history: Vec<(Option<crate::keys::Event>, Vec<crate::keys::Event>)> = vec![];
    let ra_pct = jv["ra_pct"].as_u64().unwrap_or(1) as usize;      // how many steps in a hundred are resets
    for si in 0..steps {
      let scripted: Option<&Value> = script.as_ref().map(|h| &h[si]);
      let roll = match scripted { Some(e) => if e["t"].as_str() == Some("RA") { 0 } else { 50 }, None => rng.below(100) };
      if roll < ra_pct {
        let mut unseen = vec![];
        if scripted.is_none() && rng.below(2) == 0 {
          // keys that are held go up while tablet mode is on (the mapper never hears of it), or other keys move
          for _ in 0..(1 + rng.below(2)) {
            if !held.is_empty() && rng.below(3) != 0 { let k = held[rng.below(held.len())]; unseen.push(Released(k)); }
            else { let k = keys[rng.below(keys.len())]; unseen.push(if rng.below(3) == 0 { Released(k) } else { Pressed(k) }); }
          }
        }
        if let Some(e) = scripted { if let Some(a) = e["unseen"].as_array() { for x in a { unseen.push(pev(x).unwrap()); } } }
        history.push((None, unseen)); held.clear(); continue;
      }
      // mostly well-formed events, biased towards releasing when many keys are held; some ill-formed ones
      let ev = if let Some(e) = scripted { pev(e).unwrap() } else if roll < ra_pct + 7 {
        let k = keys[rng.below(keys.len())];
        if held.contains(&k) { Pressed(k) } else { Released(k) }          // ill-formed
      } else if !held.is_empty() && (held.len() >= maxheld || rng.below(100) < 45) {
        let k = held[rng.below(held.len())];
        Released(k)
      } else {
        let free: Vec<KeyCode> = keys.iter().cloned().filter(|k| !held.contains(k)).collect();
        if free.is_empty() { continue; }
        Pressed(free[rng.below(free.len())])
      };
      match &ev { Pressed(k) => { if !held.contains(k) { held.push(*k); } }, Released(k) => held.retain(|h| h != k) }
      history.push((Some(ev), vec![]));
    }
    if as_loop_trace {
      crate::looprun::walk_via_loop_trace(jv["id"].as_str().unwrap_or("walk"), &layout, &history, jv["noise"].as_u64().unwrap_or(0) as u8, jv["wake"].as_u64().unwrap_or(0), &mut out);
      continue;
    }
    if jv["via"].as_str() == Some("loop") {
      // the same history through the REAL per-device loop and the REAL driver (system-call level): one event per
      // wake-up; a reset is the tablet switch going on and off; `ev` is what the loop WROTE after reading the event
      for rec in crate::looprun::walk_via_loop(&layout, &history, jv["noise"].as_u64().unwrap_or(0) as u8, jv["wake"].as_u64().unwrap_or(0), jv["sendfault"].as_u64().unwrap_or(0) as usize, jv["faultrun"].as_u64().unwrap_or(1) as usize) { writeln!(out, "{}", rec).unwrap(); }
      continue;
    }
    for (h, _unseen) in history {
      let ev = match h {
        None => {
          // the tablet-mode reset
          match catch_unwind(AssertUnwindSafe(|| mapper.release_all())) {
            Ok(evs) => writeln!(out, "{}", json!({"c": "step", "e": {"t": "RA", "k": ""}, "ev": jevs(&evs), "rep": {"kind": "NoChange"}, "st": jstate(&mapper.verif_snapshot()), "panic": ""})).unwrap(),
            Err(e) => { writeln!(out, "{}", json!({"c": "step", "e": {"t": "RA", "k": ""}, "ev": [], "rep": {"kind": "NoChange"}, "st": jstate(&mapper.verif_snapshot()), "panic": panic_msg(e)})).unwrap(); break; }
          }
          continue;
        },
        Some(ev) => ev
      };
      match catch_unwind(AssertUnwindSafe(|| mapper.step(ev.clone()))) {
        Ok(r) => writeln!(out, "{}", json!({"c": "step", "e": jev(&ev), "ev": jevs(&r.events), "rep": jrep(&r.repeat), "st": jstate(&mapper.verif_snapshot()), "panic": ""})).unwrap(),
        Err(e) => { writeln!(out, "{}", json!({"c": "step", "e": jev(&ev), "ev": [], "rep": {"kind": "NoChange"}, "st": jstate(&mapper.verif_snapshot()), "panic": panic_msg(e)})).unwrap(); break; }
      }
    }
  }
}
