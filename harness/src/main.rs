// tmv — recorder/driver for the TLA+ verification of ellbur/totalmapper.
//
// This program contains NO judgement about any property. It enumerates what it is told to
// enumerate, drives the real code of the repository (compiled into this crate from
// $VERIF_REPO/src by build.rs, with the hook cfg on) and writes what the code did as ndjson.
// Every comparison that decides a property is a TLA+ expression evaluated by TLC (see /verif/spec).
#![allow(dead_code, unused_imports, unused_variables)]
#[macro_use]
extern crate enum_display_derive;

include!(concat!(env!("OUT_DIR"), "/mods.rs"));

mod j;
mod tabulate;
mod cases;
mod looprun;
mod supervise;

fn usage() -> ! {
  eprintln!("usage: tmv <subcommand> [args]\n\
    keys                                  all key codes the tool knows: ndjson {{name, code}}\n\
    builtins                              the built-in layouts: ndjson {{name, json}}\n\
    tabulate <jobs.json> <outdir> <shards>  tabulate Mapper::step/release_all per layout\n\
    walk <jobs.json>                      long random histories of the real mapper, recorded step by step\n\
    load <cases.ndjson>                   run the real loader on JSON values\n\
    loadtext <cases.ndjson>               run the real loader on raw texts (outcome only)\n\
    roundtrip <cases.ndjson>              save as /etc/totalmapper.json would, reload\n\
    devlist <cases.ndjson>                run both device-list extractors and exclusion\n\
    svc <cases.ndjson>                    build_service_text for pattern lists\n\
    svcscalars                            build_service_text for every Unicode scalar, compressed\n\
    svcfile <cases.ndjson>                the same projection of unit texts written by the real binary\n\
    wire <cases.ndjson>                   DevInputWriter::send / DevInputReader::next over a pipe\n\
    loop <schedules.ndjson>               run the real per-device loop under scripted schedules\n\
    supervise <schedules.ndjson>          run the real --auto-all-keyboards supervisor (inside the namespace lib/e3.py prepares)
    fleet <cases.ndjson>                  run the real --all-keyboards / --dev-file start-up and join (same namespace)");
  std::process::exit(2);
}

fn main() {
  // A panic of the code under test is data: it is caught and recorded; keep stderr quiet.
  std::panic::set_hook(Box::new(|_| {}));
  let args: Vec<String> = std::env::args().collect();
  if args.len() < 2 { usage(); }
  let rest = &args[2..];
  match args[1].as_str() {
    "keys" => cases::cmd_keys(rest.get(0)),
    "builtins" => cases::cmd_builtins(),
    "tabulate" => { if rest.len() != 3 { usage(); } tabulate::cmd_tabulate(&rest[0], &rest[1], rest[2].parse().unwrap()) },
    "walk" => { if rest.len() != 1 { usage(); } tabulate::cmd_walk(&rest[0]) },
    "load" => { if rest.len() != 1 { usage(); } cases::cmd_load(&rest[0]) },
    "loadtext" => { if rest.len() != 1 { usage(); } cases::cmd_loadtext(&rest[0]) },
    "roundtrip" => { if rest.len() != 1 { usage(); } cases::cmd_roundtrip(&rest[0]) },
    "devlist" => { if rest.len() != 1 { usage(); } cases::cmd_devlist(&rest[0]) },
    "svc" => { if rest.len() != 1 { usage(); } cases::cmd_svc(&rest[0]) },
    "svcscalars" => cases::cmd_svcscalars(),
    "svcfile" => { if rest.len() != 1 { usage(); } cases::cmd_svcfile(&rest[0]) },
    "wire" => { if rest.len() != 1 { usage(); } cases::cmd_wire(&rest[0]) },
    "loop" => { if rest.len() != 1 { usage(); } looprun::cmd_loop(&rest[0]) },
    "supervise" => { if rest.len() != 1 { usage(); } supervise::cmd_supervise(&rest[0]) },
    "fleet" => { if rest.len() != 1 { usage(); } supervise::cmd_fleet(&rest[0]) },
    _ => usage()
  }
}
