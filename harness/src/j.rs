// JSON projections of the repository's data types (and back). Shapes are uniform so that TLC can
// compare records without "record vs string" errors: an Option is a 0/1-element array, a repeat
// is always a record with a `kind` field.
use crate::keys::{Layout, Mapping, KeyCode, Event, Repeat};
use crate::keys::Event::{Pressed, Released};
use crate::key_transforms::{ResultingRepeat, VerifState};
use serde_json::{json, Value};

pub fn kname(k: &KeyCode) -> String {
  serde_json::to_value(k).unwrap().as_str().unwrap().to_string()
}

pub fn kparse(name: &str) -> Result<KeyCode, String> {
  serde_json::from_value::<KeyCode>(Value::String(name.to_string())).map_err(|e| format!("unknown key {}: {}", name, e))
}

pub fn jkeys(ks: &[KeyCode]) -> Value {
  Value::Array(ks.iter().map(|k| Value::String(kname(k))).collect())
}

pub fn pkeys(v: &Value) -> Result<Vec<KeyCode>, String> {
  v.as_array().ok_or("key list expected".to_string())?.iter()
    .map(|x| kparse(x.as_str().ok_or("key name expected".to_string())?)).collect()
}

pub fn jrepeat(r: &Repeat) -> Value {
  match r {
    Repeat::Normal => json!({"kind": "Normal"}),
    Repeat::Disabled => json!({"kind": "Disabled"}),
    Repeat::Special { keys, delay_ms, interval_ms } =>
      json!({"kind": "Special", "keys": jkeys(keys), "delay": delay_ms, "interval": interval_ms})
  }
}

pub fn prepeat(v: &Value) -> Result<Repeat, String> {
  match v["kind"].as_str() {
    Some("Normal") => Ok(Repeat::Normal),
    Some("Disabled") => Ok(Repeat::Disabled),
    Some("Special") => Ok(Repeat::Special {
      keys: pkeys(&v["keys"])?,
      delay_ms: v["delay"].as_i64().ok_or("delay")? as i32,
      interval_ms: v["interval"].as_i64().ok_or("interval")? as i32
    }),
    _ => Err(format!("bad repeat {}", v))
  }
}

pub fn jmapping(m: &Mapping) -> Value {
  json!({"from": jkeys(&m.from), "to": jkeys(&m.to), "repeat": jrepeat(&m.repeat), "absorbing": jkeys(&m.absorbing)})
}

pub fn pmapping(v: &Value) -> Result<Mapping, String> {
  Ok(Mapping { from: pkeys(&v["from"])?, to: pkeys(&v["to"])?, repeat: prepeat(&v["repeat"])?, absorbing: pkeys(&v["absorbing"])? })
}

pub fn jlayout(l: &Layout) -> Value {
  Value::Array(l.mappings.iter().map(jmapping).collect())
}

pub fn playout(v: &Value) -> Result<Layout, String> {
  Ok(Layout { mappings: v.as_array().ok_or("mapping list expected".to_string())?.iter().map(pmapping).collect::<Result<Vec<_>, _>>()? })
}

pub fn jstate(s: &VerifState) -> Value {
  json!({
    "input": jkeys(&s.input_pressed_keys),
    "active": s.active_mappings.iter().map(jmapping).collect::<Vec<_>>(),
    "pass": jkeys(&s.pass_through_keys),
    "mapped": jkeys(&s.mapped_output_keys),
    "absorbed": jkeys(&s.mapped_absorbed_keys),
    "abstrig": jkeys(&s.absorbing_trigger.iter().cloned().collect::<Vec<_>>()),
    "reptrig": jkeys(&s.repeating_trigger.iter().cloned().collect::<Vec<_>>())
  })
}

pub fn jev(e: &Event) -> Value {
  match e {
    Pressed(k) => json!({"t": "P", "k": kname(k)}),
    Released(k) => json!({"t": "R", "k": kname(k)})
  }
}

pub fn pev(v: &Value) -> Result<Event, String> {
  let k = kparse(v["k"].as_str().ok_or("event key")?)?;
  match v["t"].as_str() {
    Some("P") => Ok(Pressed(k)),
    Some("R") => Ok(Released(k)),
    _ => Err(format!("bad event {}", v))
  }
}

pub fn jevs(es: &[Event]) -> Value {
  Value::Array(es.iter().map(jev).collect())
}

pub fn jrep(r: &ResultingRepeat) -> Value {
  match r {
    ResultingRepeat::Disabled => json!({"kind": "Disabled"}),
    ResultingRepeat::NoChange => json!({"kind": "NoChange"}),
    ResultingRepeat::Repeating { keys, delay_ms, interval_ms } =>
      json!({"kind": "Repeating", "keys": jkeys(keys), "delay": delay_ms, "interval": interval_ms})
  }
}

pub fn panic_msg(e: Box<dyn std::any::Any + Send>) -> String {
  if let Some(s) = e.downcast_ref::<&str>() { s.to_string() }
  else if let Some(s) = e.downcast_ref::<String>() { s.clone() }
  else { "panic".to_string() }
}

// The real loader, as load_layout_from_file composes it, on an already parsed JSON value.
pub fn load_value(v: &Value) -> Result<Layout, String> {
  crate::fancy_layout_interpreting::convert(&crate::layout_parsing_formatting::parse_layout_from_json(v)?)
}

pub fn read_ndjson(path: &str) -> Vec<Value> {
  let text = std::fs::read_to_string(path).unwrap_or_else(|e| { eprintln!("cannot read {}: {}", path, e); std::process::exit(2) });
  text.lines().filter(|l| !l.trim().is_empty())
    .map(|l| serde_json::from_str(l).unwrap_or_else(|e| { eprintln!("bad json line in {}: {}", path, e); std::process::exit(2) })).collect()
}
