// Runs the REAL per-device loop (do_remapping_loop_one_device, through the cfg-guarded
// remapping_loop::verif entry) against a scripted driver and records every driver call.
//
// The driver is the environment half of spec/Loop.tla: two queues of unread events, edge-triggered
// readiness flags, a poll that reports the flagged devices / times out / is interrupted, and an
// optional injected failure of the k-th call. A schedule (a behaviour of Loop.tla's environment,
// printed by TLC) is advice about WHEN things arrive and how polls are answered; the driver follows
// it as far as the real loop's calls allow and always stays a legal environment; what actually
// happened is what gets logged, and that is what TLC validates (spec/LoopTrace.tla).
// Next to each read the recorder logs what the REAL mapper answers to the event (a shadow Mapper that
// lives as long as the loop, and a second one that is re-created at every tablet event): the
// references C10 and C12 are relative to. No comparison is made here.
use crate::j::*;
use crate::keys::{Layout, KeyCode, Event};
use crate::key_transforms::{Mapper, ResultingRepeat};
use crate::remapping_loop::verif::{ScriptedDriver, VPoll, VNext, run_one_device};
use serde_json::{json, Value};
use std::collections::VecDeque;
use std::io::Write;
use std::time::{Duration, Instant};

#[derive(Clone, Debug)]
enum Lbl { ArrK(Option<Event>), ArrT(bool), PollDev(bool), PollTimeout, PollIntr, ReadK, ReadT }

fn parse_labels(v: &Value) -> Vec<Lbl> {
  v.as_array().unwrap().iter().map(|l| {
    let (a, t, k, x) = (l["a"].as_str().unwrap_or(""), l["t"].as_str().unwrap_or(""), l["k"].as_str().unwrap_or(""), l["x"].as_str().unwrap_or(""));
    match a {
      "arrK" => if t == "E" { Lbl::ArrK(None) } else { Lbl::ArrK(Some(pev(&json!({"t": t, "k": k})).unwrap())) },
      "arrT" => Lbl::ArrT(t == "On"),
      "poll" => match t { "dev" => Lbl::PollDev(x != "TK"), "timeout" => Lbl::PollTimeout, _ => Lbl::PollIntr },
      "readK" => Lbl::ReadK,
      _ => Lbl::ReadT
    }
  }).collect()
}

struct Drv {
  t0: Instant,
  sched: VecDeque<Lbl>,
  kq: VecDeque<Option<Event>>, tq: VecDeque<bool>,
  k_ready: bool, t_ready: bool,
  ended: bool,            // end-of-device has been queued
  log: Vec<Value>,
  shadow: Mapper, fresh: Mapper, layout: Layout,
  in_tab: bool,
  calls: usize, fault: usize, cap: usize,
  sleep: Vec<String>,     // how the successive TimedOut answers to timed polls behave: "no" | "yes" | "over" | "late" (the last entry repeats)
  nsleep: usize,
  intr_ok: bool,          // no two interruptions without a device report in between (the loop sleeps 4 s by design)
  arr_k: Vec<Value>, arr_t: Vec<Value>,  // arrivals delivered since the last logged call
  malformed_write: bool,  // system-call mode: the bytes of the write being logged were not a well-formed batch
  log_state: bool,        // walks: log the shadow mapper's state next to every event it is given
  phys_down: Vec<KeyCode>, // keys down on the scripted device (what EVIOCGKEY reports in the full-stack runs)
  stuck: bool, send_failed: bool,
  nsends: usize, fault_run: usize, send_fault: usize   // walks: every send_fault-th write is answered EAGAIN (0 = never); the other writes succeed
}

impl Drv {
  fn us(&self) -> u64 { self.t0.elapsed().as_micros() as u64 }
  fn arrive_k(&mut self, e: Option<Event>) {
    if self.ended { return; }           // nothing arrives after end-of-device
    self.arr_k.push(match &e { Some(e) => jev(e), None => json!({"t": "E", "k": ""}) });
    if e.is_none() { self.ended = true; }
    match &e { Some(Event::Pressed(k)) => { if !self.phys_down.contains(k) { self.phys_down.push(*k); } }, Some(Event::Released(k)) => self.phys_down.retain(|h| h != k), None => () }
    self.kq.push_back(e); self.k_ready = true;
  }
  fn arrive_t(&mut self, on: bool) {
    self.arr_t.push(json!(if on { "On" } else { "Off" }));
    self.tq.push_back(on); self.t_ready = true;
  }
  // deliver the arrivals the schedule places before the next poll / read label
  fn deliver_arrivals(&mut self) {
    loop {
      match self.sched.front() {
        Some(Lbl::ArrK(_)) => { if let Some(Lbl::ArrK(e)) = self.sched.pop_front() { self.arrive_k(e); } },
        Some(Lbl::ArrT(_)) => { if let Some(Lbl::ArrT(b)) = self.sched.pop_front() { self.arrive_t(b); } },
        _ => break
      }
    }
  }
  fn begin(&mut self, c: &str) -> (Value, bool) {
    self.calls += 1;
    let faulty = self.fault != 0 && self.calls == self.fault;
    (json!({"c": c, "n": self.calls, "tin": self.us()}), faulty || self.calls > self.cap)
  }
  fn end(&mut self, mut rec: Value) {
    rec["arrK"] = Value::Array(std::mem::take(&mut self.arr_k));
    rec["arrT"] = Value::Array(std::mem::take(&mut self.arr_t));
    rec["tout"] = json!(self.us());
    self.log.push(rec);
  }
  fn errmsg(&self) -> String {
    if self.calls > self.cap { format!("harness: more than {} driver calls", self.cap) } else { format!("injected failure of driver call {}", self.calls) }
  }
}

fn noref() -> Value { json!({"ev": [], "rep": {"kind": "NoChange"}}) }

impl ScriptedDriver for Drv {
  fn register_poll(&mut self) -> Result<(), String> {
    let (mut rec, fail) = self.begin("register");
    rec["res"] = json!(if fail { "err" } else { "ok" });
    if fail { rec["err"] = json!(self.errmsg()); }
    self.end(rec);
    if fail { Err(self.errmsg()) } else { Ok(()) }
  }

  fn poll(&mut self, timeout: Option<Duration>) -> Result<VPoll, String> {
    let (mut rec, fail) = self.begin("poll");
    rec["timeout"] = json!(timeout.map(|d| d.as_micros() as i64).unwrap_or(-1));
    if fail {
      rec["res"] = json!("err"); rec["devs"] = json!([]); rec["err"] = json!(self.errmsg());
      self.end(rec);
      return Err(self.errmsg());
    }
    // follow the schedule up to its next poll label; reads the loop did not make are skipped
    let answer: VPoll;
    loop {
      self.deliver_arrivals();
      match self.sched.pop_front() {
        Some(Lbl::ReadK) | Some(Lbl::ReadT) => continue,
        Some(Lbl::PollIntr) if self.intr_ok => {
          self.intr_ok = false;
          // a signal arrives in the middle of a timed wait (only in the runs that really sleep): half of the time-out has gone by when the wait is cut short
          if let Some(t) = timeout {
            let mode = if self.sleep.is_empty() { "no".to_string() } else { self.sleep[std::cmp::min(self.nsleep, self.sleep.len() - 1)].clone() };
            if mode != "no" && t <= Duration::from_millis(60) { std::thread::sleep(t / 2); }
          }
          answer = VPoll::Interrupted; break;
        },
        Some(Lbl::PollIntr) => continue,
        Some(Lbl::PollTimeout) if !(self.k_ready || self.t_ready) => {
          if let Some(t) = timeout {
            // (a time-out is only ever slept through when it is short: long ones are answered at once, like in mode "no")
            let t = if t > Duration::from_millis(60) { Duration::from_millis(0) } else { t };
            let mode = if self.sleep.is_empty() { "no".to_string() } else { self.sleep[std::cmp::min(self.nsleep, self.sleep.len() - 1)].clone() };
            self.nsleep += 1;
            match mode.as_str() {
              _ if t.as_micros() == 0 && timeout.map(|x| x > Duration::from_millis(60)).unwrap_or(false) => (),
              "yes" => std::thread::sleep(t),                                        // the time-out elapses
              "over" => std::thread::sleep(t + Duration::from_micros(2500)),           // served a little late
              "late" => std::thread::sleep(t + Duration::from_millis(8)),              // served several intervals late (a stalled process)
              _ => ()                                                                 // answered at once: only the requested values are observed
            }
          }
          answer = VPoll::TimedOut; break;
        },
        Some(Lbl::PollTimeout) => { answer = self.report(true); break; },
        Some(Lbl::PollDev(korder)) => {
          if self.k_ready || self.t_ready { answer = self.report(korder); break; } else { continue; }
        },
        Some(Lbl::ArrK(_)) | Some(Lbl::ArrT(_)) => unreachable!(),
        None => {
          // schedule exhausted: the keyboard goes away, so that the loop terminates
          if !self.ended { self.arrive_k(None); }
          if self.k_ready || self.t_ready { answer = self.report(true); } else { answer = VPoll::TimedOut; }
          break;
        }
      }
    }
    match &answer {
      VPoll::Devices(ds) => { rec["res"] = json!("dev"); rec["devs"] = json!(ds.iter().map(|k| if *k { "K" } else { "T" }).collect::<Vec<_>>()); },
      VPoll::TimedOut => { rec["res"] = json!("timeout"); rec["devs"] = json!([]); },
      VPoll::Interrupted => { rec["res"] = json!("intr"); rec["devs"] = json!([]); }
    }
    self.end(rec);
    Ok(answer)
  }

  fn next_keyboard(&mut self) -> Result<VNext<Event>, String> {
    let (mut rec, fail) = self.begin("kbd");
    rec["e"] = json!({"t": "-", "k": ""}); rec["ref"] = noref(); rec["ref2"] = noref();
    if fail { rec["res"] = json!("err"); rec["err"] = json!(self.errmsg()); self.end(rec); return Err(self.errmsg()); }
    self.deliver_arrivals();
    if let Some(Lbl::ReadK) = self.sched.front() { self.sched.pop_front(); }
    let r = match self.kq.front() {
      None => { rec["res"] = json!("busy"); VNext::Busy },
      Some(None) => { rec["res"] = json!("end"); VNext::End },
      Some(Some(_)) => {
        let e = self.kq.pop_front().unwrap().unwrap();
        rec["res"] = json!("one"); rec["e"] = jev(&e);
        if !self.in_tab {
          let a = self.shadow.step(e.clone());
          let b = self.fresh.step(e.clone());
          rec["ref"] = json!({"ev": jevs(&a.events), "rep": jrep(&a.repeat)});
          rec["ref2"] = json!({"ev": jevs(&b.events), "rep": jrep(&b.repeat)});
          if self.log_state { rec["st"] = jstate(&self.shadow.verif_snapshot()); }
        }
        VNext::One(e)
      }
    };
    self.end(rec);
    Ok(r)
  }

  fn next_tablet(&mut self) -> Result<VNext<bool>, String> {
    let (mut rec, fail) = self.begin("tab");
    rec["on"] = json!(false); rec["ref"] = json!({"ev": []});
    if fail { rec["res"] = json!("err"); rec["err"] = json!(self.errmsg()); self.end(rec); return Err(self.errmsg()); }
    self.deliver_arrivals();
    if let Some(Lbl::ReadT) = self.sched.front() { self.sched.pop_front(); }
    let r = match self.tq.pop_front() {
      None => { rec["res"] = json!("busy"); VNext::Busy },
      Some(on) => {
        self.in_tab = on;
        let evs = self.shadow.release_all();
        self.fresh = Mapper::for_layout(&self.layout);     // "resumes as from a fresh start"
        rec["res"] = json!("one"); rec["on"] = json!(on); rec["ref"] = json!({"ev": jevs(&evs)});
        if self.log_state { rec["st"] = jstate(&self.shadow.verif_snapshot()); }
        VNext::One(on)
      }
    };
    self.end(rec);
    Ok(r)
  }

  fn send(&mut self, evs: &Vec<Event>) -> Result<(), String> {
    let (mut rec, fail) = self.begin("send");
    // a consumer that stays stalled: once an injected failure has hit a write, every later write fails as well
    let fail = fail || (self.stuck && self.send_failed);
    if fail { self.send_failed = true; }
    self.nsends += 1;
    let fail = fail || (self.send_fault != 0 && self.nsends >= self.send_fault && (self.nsends - self.send_fault) % (self.send_fault + self.fault_run) < self.fault_run);
    rec["evs"] = jevs(evs);
    if self.malformed_write { rec["evs"].as_array_mut().unwrap().push(json!({"t": "?", "k": "malformed write"})); self.malformed_write = false; }
    rec["res"] = json!(if fail { "err" } else { "ok" });
    if fail { rec["err"] = json!(self.errmsg()); }
    self.end(rec);
    if fail { Err(self.errmsg()) } else { Ok(()) }
  }
}

impl Drv {
  // poll reports the flagged devices and clears their flags (edge-triggered)
  fn report(&mut self, korder: bool) -> VPoll {
    let mut d = vec![];
    if self.k_ready { d.push(true); }
    if self.t_ready { d.push(false); }
    if !korder { d.reverse(); }
    self.k_ready = false; self.t_ready = false; self.intr_ok = true;
    VPoll::Devices(d)
  }
}

fn new_drv(layout: &Layout, labels: &[Lbl], fault: usize, sleep: &[String]) -> Drv {
  Drv {
    t0: Instant::now(), sched: labels.iter().cloned().collect(), kq: VecDeque::new(), tq: VecDeque::new(),
    k_ready: false, t_ready: false, ended: false, log: vec![],
    shadow: Mapper::for_layout(layout), fresh: Mapper::for_layout(layout), layout: layout.clone(), in_tab: false,
    calls: 0, fault, cap: 400 + 20 * labels.len(), sleep: sleep.to_vec(), nsleep: 0, intr_ok: true, arr_k: vec![], arr_t: vec![],
    malformed_write: false, log_state: false, phys_down: vec![], stuck: true, send_failed: false, nsends: 0, fault_run: 1, send_fault: 0
  }
}

fn write_trace(id: &str, layout: &Layout, fault: usize, sleep: &[String], d: &Drv, r: std::thread::Result<Result<(), String>>, extra: Value, out: &mut dyn Write) {
  let mut reset = json!({"c": "reset", "id": id, "layout": jlayout(layout), "fault": fault, "sleep": sleep});
  for (k, v) in extra.as_object().unwrap() { reset[k] = v.clone(); }
  writeln!(out, "{}", reset).unwrap();
  for l in &d.log { writeln!(out, "{}", l).unwrap(); }
  // errhas: the text the loop returned contains the text of the first failure a driver call answered with (a fact about two strings, which
  // TLC cannot take apart; "returns that error" does not forbid adding context to it)
  let first_err: String = d.log.iter().find(|l| l["res"].as_str() == Some("err")).and_then(|l| l["err"].as_str()).unwrap_or("").to_string();
  let ret = match r {
    Ok(Ok(())) => json!({"c": "ret", "ok": true, "err": "", "panic": false, "errhas": false}),
    Ok(Err(e)) => json!({"c": "ret", "ok": false, "errhas": !first_err.is_empty() && e.contains(&first_err), "err": e, "panic": false}),
    Err(e) => json!({"c": "ret", "ok": false, "err": panic_msg(e), "panic": true, "errhas": false})
  };
  writeln!(out, "{}", ret).unwrap();
}

fn run_one(id: &str, layout: &Layout, labels: &[Lbl], fault: usize, sleep: &[String], out: &mut dyn Write) -> usize {
  let mut d = new_drv(layout, labels, fault, sleep);
  let r = std::panic::catch_unwind(std::panic::AssertUnwindSafe(|| run_one_device(&mut d, layout.clone())));
  write_trace(id, layout, fault, sleep, &d, r, json!({"mode": "scripted", "slack": 0, "errtext": true, "noise": 0}), out);
  d.calls
}

// {id, layout, sched, sleep, faults}: faults = 0 (none) | k | "all" (a fault-free run, then one run per call index)
pub fn cmd_loop(path: &str) {
  let out = std::io::stdout();
  let mut out = std::io::BufWriter::new(out.lock());
  for c in read_ndjson(path) {
    let layout = playout(&c["layout"]).unwrap_or_else(|e| { eprintln!("bad layout: {}", e); std::process::exit(2) });
    let labels = parse_labels(&c["sched"]);
    let id = c["id"].as_str().map(|s| s.to_string()).unwrap_or_else(|| c["id"].to_string());
    let sleep: Vec<String> = match &c["sleep"] {
      Value::Array(a) => a.iter().map(|x| x.as_str().unwrap_or("no").to_string()).collect(),
      v => vec![v.as_str().unwrap_or("no").to_string()]
    };
    let sys = c["mode"].as_str() == Some("sys");
    let noise = c["noise"].as_u64().unwrap_or(0) as u8;
    let with_tablet = c["tablet"].as_bool().unwrap_or(true);
    let werr = c["werr"].as_i64().unwrap_or(5) as i32;
    if c["mode"].as_str() == Some("full") {
      run_one_full(&id, &layout, &labels, &parse_su_labels(&c["su"]), noise, &mut out);
      continue;
    }
    let mut run = |tid: &str, k: usize, out: &mut dyn Write| -> usize {
      if sys { run_one_sys(tid, &layout, &labels, k, &sleep, noise, werr, with_tablet, out) } else { run_one(tid, &layout, &labels, k, &sleep, out) }
    };
    if c["faults"].as_str() == Some("all") {
      let n = run(&id, 0, &mut out);
      // in system-call mode call 1 (the registration) is not scripted
      for k in (if sys { 2 } else { 1 })..=n { run(&format!("{}/f{}", id, k), k, &mut out); }
    } else {
      let k = c["faults"].as_u64().unwrap_or(0) as usize;
      let tid = if k == 0 { id.clone() } else { format!("{}/f{}", id, k) };
      run(&tid, k, &mut out);
    }
  }
}

// ---------------------------------------------------------------------------------------------
// The same environment one level lower: the REAL driver (RealDriver: mio's Poll, DevInputReader,
// TabletModeSwitchReader, DevInputWriter) runs on three descriptors, and this process answers the
// three system calls it makes on them - epoll_wait, read, write - from the same scripted `Drv`.
// The definitions below replace the libc symbols for the whole program (the executable's own
// definition wins at link time); on every thread that has no scripted run in progress, and for
// every other descriptor, they pass straight through to the kernel.
//
// What the kernel side is modelled as (drivers/input/evdev.c):
//   evdev_poll: EPOLLIN when the client buffer holds events; EPOLLHUP|EPOLLERR when the device is
//               gone (with EPOLLIN as well only if unread events remain); edge-triggered by mio;
//   evdev_read: one input_event (24 bytes) per read of 24 bytes; EAGAIN when empty and the device
//               exists; ENODEV when it does not; key events come framed by MSC_SCAN / SYN_REPORT
//               and, when a key stays down, auto-repeat events (value 2), per `noise`.
// ---------------------------------------------------------------------------------------------
use std::cell::RefCell;
use num_traits::FromPrimitive;

struct Sys {
  d: Drv,
  kfd: i32, tfd: i32, wfd: i32,
  kbytes: VecDeque<[u8; 24]>, tbytes: VecDeque<[u8; 24]>,
  noise: u8,
  full: Option<Full>,    // full-stack run: open_device's start-up is scripted as well
  down: Vec<u16>,        // key codes down on the scripted device (for the auto-repeat noise)
  werr: i32,             // errno of an injected write failure (EIO, or one the readers treat as 'no data' / 'gone')
  unknown_code: u16
}

// one scripted run at a time per process (the recorder runs its cases one after the other; parallelism is by processes).
// Global rather than thread-local because the full-stack runs let the code under test spawn the device thread itself.
static GSYS: std::sync::Mutex<Option<Sys>> = std::sync::Mutex::new(None);

fn sys_install(sys: Sys) { *GSYS.lock().unwrap_or_else(|e| e.into_inner()) = Some(sys); }
fn sys_take() -> Sys { GSYS.lock().unwrap_or_else(|e| e.into_inner()).take().unwrap() }
// runs f on the installed script if there is one and f claims the call (Some); None = pass the call through to the kernel
fn with_sys<R>(f: impl FnOnce(&mut Sys) -> Option<R>) -> Option<R> {
  let mut g = match GSYS.try_lock() {
    Ok(g) => g,
    Err(std::sync::TryLockError::Poisoned(e)) => e.into_inner(),
    Err(std::sync::TryLockError::WouldBlock) => return None
  };
  match g.as_mut() { Some(sys) => f(sys), None => None }
}

fn frame(type_: u16, code: u16, value: i32) -> [u8; 24] {
  let mut b = [0u8; 24];
  b[16..18].copy_from_slice(&type_.to_ne_bytes());
  b[18..20].copy_from_slice(&code.to_ne_bytes());
  b[20..24].copy_from_slice(&value.to_ne_bytes());
  b
}

const E_AGAIN: i32 = 11; const E_NODEV: i32 = 19; const E_IO: i32 = 5; const E_INTR: i32 = 4;

impl Sys {
  // -> (return value, errno)
  fn epoll_wait(&mut self, events: *mut libc::epoll_event, maxevents: i32, timeout_ms: i32) -> (i32, i32) {
    if let Some(f) = self.full.as_mut() {
      if !f.registered {
        // the loop's own registration went to the kernel; EPOLL_CTL_ADD reports a descriptor that is readable already
        f.registered = true;
        let _ = ScriptedDriver::register_poll(&mut self.d);
        self.d.k_ready = !self.d.kq.is_empty();
      }
    }
    let timeout = if timeout_ms < 0 { None } else { Some(Duration::from_millis(timeout_ms as u64)) };
    match ScriptedDriver::poll(&mut self.d, timeout) {
      Err(_) => (-1, E_IO),
      Ok(VPoll::Interrupted) => (-1, E_INTR),
      Ok(VPoll::TimedOut) => (0, 0),
      Ok(VPoll::Devices(ds)) => {
        let gone = self.d.kq.iter().any(|e| e.is_none());
        let unread = self.d.kq.iter().any(|e| e.is_some()) || !self.kbytes.is_empty();
        let mut n = 0;
        for k in ds {
          if n >= maxevents { break; }
          let (mask, token) = if k {
            (if gone { (libc::EPOLLHUP | libc::EPOLLERR) | (if unread { libc::EPOLLIN } else { 0 }) } else { libc::EPOLLIN }, 0u64)
          } else { (libc::EPOLLIN, 1u64) };
          unsafe { std::ptr::write_unaligned(events.offset(n as isize), libc::epoll_event { events: mask as u32, u64: token }); }
          n += 1;
        }
        (n, 0)
      }
    }
  }

  // evdev_read hands over as many whole records as fit into the caller's buffer: everything already framed, then
  // further events that are waiting in the device queue (each is one more logged read of the scripted device)
  fn push_key_frames(&mut self, e: &Event) {
    let (code, value) = match e { Event::Pressed(k) => (*k as u16, 1), Event::Released(k) => (*k as u16, 0) };
    if self.noise >= 3 {
      // a device that re-sends every key that is down as auto-repeat before each report
      for c in self.down.clone() { self.kbytes.push_back(frame(1, c, 2)); self.kbytes.push_back(frame(0, 0, 0)); }
    }
    if value == 1 { if !self.down.contains(&code) { self.down.push(code); } } else { self.down.retain(|c| *c != code); }
    if self.noise >= 1 { self.kbytes.push_back(frame(4, 4, code as i32)); }            // MSC_SCAN
    if self.noise >= 2 { self.kbytes.push_back(frame(1, self.unknown_code, 1)); }       // a key the tool has no name for
    // SYN_DROPPED: the client buffer was overrun; the records after it are genuine, and the newest of them is typically a release
    // (in front of releases only: a reader that throws the following records away then loses releases and keeps presses)
    if self.noise >= 2 && value == 0 { self.kbytes.push_back(frame(0, 3, 0)); }
    self.kbytes.push_back(frame(1, code, value));
    if self.noise >= 1 { self.kbytes.push_back(frame(0, 0, 0)); }                       // SYN_REPORT
    if self.noise >= 2 && value == 1 { self.kbytes.push_back(frame(1, code, 2)); self.kbytes.push_back(frame(0, 0, 0)); }  // auto-repeat
    if self.noise >= 2 {
      // records of other types whose value is 1 and whose code is some key's code: an LED going on, a wheel notch, scan code 1
      self.kbytes.push_back(frame(0x11, 1, 1)); self.kbytes.push_back(frame(2, 8, 1)); self.kbytes.push_back(frame(4, 4, 1)); self.kbytes.push_back(frame(0, 0, 0));
      // ... and a key record with a value that is neither press, release nor auto-repeat
      self.kbytes.push_back(frame(1, code, 3));
    }
  }

  fn read_k(&mut self, buf: *mut u8, count: usize) -> (isize, i32) {
    if count < 24 { return (-1, 22); }
    let room = count / 24;
    if self.kbytes.is_empty() {
      match ScriptedDriver::next_keyboard(&mut self.d) {
        Err(_) => return (-1, E_IO),
        Ok(VNext::Busy) => return (-1, E_AGAIN),
        Ok(VNext::End) => return (-1, E_NODEV),
        Ok(VNext::One(e)) => self.push_key_frames(&e)
      }
    }
    while self.kbytes.len() < room && matches!(self.d.kq.front(), Some(Some(_))) && !(self.d.fault != 0 && self.d.calls + 1 == self.d.fault) {
      if let Ok(VNext::One(e)) = ScriptedDriver::next_keyboard(&mut self.d) { self.push_key_frames(&e); } else { break; }
    }
    let n = std::cmp::min(room, self.kbytes.len());
    for i in 0..n {
      let f = self.kbytes.pop_front().unwrap();
      unsafe { std::ptr::copy_nonoverlapping(f.as_ptr(), buf.add(24 * i), 24); }
    }
    ((24 * n) as isize, 0)
  }

  fn push_tab_frames(&mut self, on: bool) {
    if self.noise >= 1 { self.tbytes.push_back(frame(5, 0, 1)); }                       // another switch (SW_LID)
    self.tbytes.push_back(frame(5, 1, if on { 1 } else { 0 }));
    if self.noise >= 1 { self.tbytes.push_back(frame(0, 0, 0)); }
  }

  fn read_t(&mut self, buf: *mut u8, count: usize) -> (isize, i32) {
    if count < 24 { return (-1, 22); }
    let room = count / 24;
    if self.tbytes.is_empty() {
      match ScriptedDriver::next_tablet(&mut self.d) {
        Err(_) => return (-1, E_IO),
        Ok(VNext::Busy) => return (-1, E_AGAIN),
        Ok(VNext::End) => return (-1, E_NODEV),
        Ok(VNext::One(on)) => self.push_tab_frames(on)
      }
    }
    while self.tbytes.len() < room && !self.d.tq.is_empty() && !(self.d.fault != 0 && self.d.calls + 1 == self.d.fault) {
      if let Ok(VNext::One(on)) = ScriptedDriver::next_tablet(&mut self.d) { self.push_tab_frames(on); } else { break; }
    }
    let n = std::cmp::min(room, self.tbytes.len());
    for i in 0..n {
      let f = self.tbytes.pop_front().unwrap();
      unsafe { std::ptr::copy_nonoverlapping(f.as_ptr(), buf.add(24 * i), 24); }
    }
    ((24 * n) as isize, 0)
  }

  // one write = one batch: key frames, closed by exactly one SYN_REPORT
  fn write_w(&mut self, buf: *const u8, count: usize) -> (isize, i32) {
    let bytes = unsafe { std::slice::from_raw_parts(buf, count) };
    let mut evs: Vec<Event> = vec![];
    let mut well_formed = count % 24 == 0 && count >= 24;
    if well_formed {
      let n = count / 24;
      for i in 0..n {
        let f = &bytes[i * 24..(i + 1) * 24];
        let type_ = u16::from_ne_bytes([f[16], f[17]]);
        let code = u16::from_ne_bytes([f[18], f[19]]);
        let value = i32::from_ne_bytes([f[20], f[21], f[22], f[23]]);
        if i == n - 1 { if !(type_ == 0 && code == 0 && value == 0) { well_formed = false; } }
        else if type_ == 1 && (value == 0 || value == 1) {
          match <KeyCode as FromPrimitive>::from_u16(code) {
            Some(k) => evs.push(if value == 1 { Event::Pressed(k) } else { Event::Released(k) }),
            None => well_formed = false
          }
        } else { well_formed = false; }
      }
    }
    self.d.malformed_write = !well_formed;
    match ScriptedDriver::send(&mut self.d, &evs) {
      Ok(()) => (count as isize, 0),
      Err(_) => (-1, self.werr)
    }
  }
}

unsafe fn set_errno(e: i32) { *libc::__errno_location() = e; }

#[no_mangle]
pub unsafe extern "C" fn epoll_wait(epfd: libc::c_int, events: *mut libc::epoll_event, maxevents: libc::c_int, timeout: libc::c_int) -> libc::c_int {
  match with_sys(|sys| Some(if sys.full.as_ref().map(|f| f.phase == 0).unwrap_or(false) { sys.su_poll(events) } else { sys.epoll_wait(events, maxevents, timeout) })) {
    Some((ret, errno)) => { if ret < 0 { set_errno(errno); } ret },
    None => libc::syscall(libc::SYS_epoll_wait, epfd, events, maxevents, timeout) as libc::c_int
  }
}

#[no_mangle]
pub unsafe extern "C" fn read(fd: libc::c_int, buf: *mut libc::c_void, count: libc::size_t) -> libc::ssize_t {
  if let Some((ret, errno)) = crate::supervise::hook_read(fd) { if ret < 0 { set_errno(errno); } return ret; }
  match with_sys(|sys| {
    if fd == sys.kfd { Some(if sys.full.as_ref().map(|f| f.phase == 0).unwrap_or(false) { sys.su_read(buf as *mut u8, count) } else { sys.read_k(buf as *mut u8, count) }) }
    else if fd == sys.tfd { Some(sys.read_t(buf as *mut u8, count)) }
    else { None }
  }) {
    Some((ret, errno)) => { if ret < 0 { set_errno(errno); } ret },
    None => libc::syscall(libc::SYS_read, fd, buf, count) as libc::ssize_t
  }
}

#[no_mangle]
pub unsafe extern "C" fn write(fd: libc::c_int, buf: *const libc::c_void, count: libc::size_t) -> libc::ssize_t {
  if let Some((ret, errno)) = crate::supervise::hook_write(fd, buf as *const u8, count) { if ret < 0 { set_errno(errno); } return ret; }
  match with_sys(|sys| {
    if fd != sys.wfd { None }
    else if sys.full.as_ref().map(|f| f.phase < 2).unwrap_or(false) { Some(sys.su_udev_write(buf as *const u8, count)) }
    else { Some(sys.write_w(buf as *const u8, count)) }
  }) {
    Some((ret, errno)) => { if ret < 0 { set_errno(errno); } ret },
    None => libc::syscall(libc::SYS_write, fd, buf, count) as libc::ssize_t
  }
}

// full-stack runs only: the three device nodes open_device opens, and the ioctls it issues on them
#[no_mangle]
pub unsafe extern "C" fn open(path: *const libc::c_char, flags: libc::c_int, mode: libc::mode_t) -> libc::c_int {
  let p = if path.is_null() { String::new() } else { std::ffi::CStr::from_ptr(path).to_string_lossy().into_owned() };
  if let Some(fd) = crate::supervise::hook_open(&p, flags) { return fd; }
  // the cfg hook run_real_driver makes its readers with their own `open` on /proc/self/fd/<descriptor>: the scripted keyboard / tablet
  // descriptor is handed out under a fresh number (any descriptor epoll accepts), which from now on is the scripted one
  match with_sys(|sys| {
    if sys.full.is_some() { return sys.su_open(&p, flags); }
    if p == format!("/proc/self/fd/{}", sys.kfd) { let n = new_fd(); sys.kfd = n; return Some(n); }
    if sys.tfd >= 0 && p == format!("/proc/self/fd/{}", sys.tfd) { let n = new_fd(); sys.tfd = n; return Some(n); }
    None
  }) {
    Some(fd) => fd,
    None => libc::syscall(libc::SYS_open, path, flags, mode as libc::c_uint) as libc::c_int
  }
}

#[no_mangle]
pub unsafe extern "C" fn ioctl(fd: libc::c_int, req: libc::c_ulong, arg: *mut libc::c_void) -> libc::c_int {
  if let Some((ret, errno)) = crate::supervise::hook_ioctl(fd, req, arg) { if ret < 0 { set_errno(errno); } return ret; }
  match with_sys(|sys| if sys.full.is_some() && (fd == sys.kfd || fd == sys.wfd || fd == sys.tfd) { Some(sys.su_ioctl(fd, req, arg)) } else { None }) {
    Some((ret, errno)) => { if ret < 0 { set_errno(errno); } ret },
    None => libc::syscall(libc::SYS_ioctl, fd, req, arg) as libc::c_int
  }
}

// std::fs opens files with open64: only the supervisor runs look at it (the device list of list_keyboards)
#[no_mangle]
pub unsafe extern "C" fn open64(path: *const libc::c_char, flags: libc::c_int, mode: libc::mode_t) -> libc::c_int {
  let p = if path.is_null() { String::new() } else { std::ffi::CStr::from_ptr(path).to_string_lossy().into_owned() };
  if let Some(fd) = crate::supervise::hook_open64(&p) { return fd; }
  libc::syscall(libc::SYS_open, path, flags | libc::O_LARGEFILE, mode as libc::c_uint) as libc::c_int
}

fn new_fd() -> i32 {
  // any descriptor epoll accepts; the kernel's side of it is never read or written
  unsafe { libc::eventfd(0, libc::EFD_NONBLOCK | libc::EFD_CLOEXEC) }
}

fn run_one_sys(id: &str, layout: &Layout, labels: &[Lbl], fault: usize, sleep: &[String], noise: u8, werr: i32, with_tablet: bool, out: &mut dyn Write) -> usize {
  let mut d = new_drv(layout, labels, fault, sleep);
  // the registration (epoll_create1 / epoll_ctl on the descriptors) goes to the kernel unscripted;
  // it is logged as the loop's first call so that the traces have one shape
  d.fault = 0;
  let _ = ScriptedDriver::register_poll(&mut d);
  d.fault = fault;
  let (kfd, tfd, wfd) = (new_fd(), if with_tablet { new_fd() } else { -1 }, new_fd());
  let unknown_code = (1u16..768).rev().find(|c| <KeyCode as FromPrimitive>::from_u16(*c).is_none()).unwrap_or(767);
  sys_install(Sys { d, kfd, tfd, wfd, kbytes: VecDeque::new(), tbytes: VecDeque::new(), noise, full: None, down: vec![], werr, unknown_code });
  let lay = layout.clone();
  let r = std::panic::catch_unwind(std::panic::AssertUnwindSafe(|| crate::remapping_loop::verif::run_real_driver(kfd, wfd, if with_tablet { Some(tfd) } else { None }, lay)));
  let sys = sys_take();
  unsafe { libc::close(kfd); if tfd >= 0 { libc::close(tfd); } libc::close(wfd); if sys.kfd != kfd { libc::close(sys.kfd); } if sys.tfd != tfd && sys.tfd >= 0 { libc::close(sys.tfd); } }
  write_trace(id, layout, fault, sleep, &sys.d, r, json!({"mode": "sys", "slack": 999, "errtext": false, "noise": noise, "werr": werr}), out);
  sys.d.calls
}

// A history of the mapper's walks (tabulate.rs: cmd_walk) taken through the real loop and the real driver at the
// system-call level: one event per wake-up, a reset = the tablet switch going on and off within one wake-up. The result
// has the shape of a direct walk - per event what was WRITTEN to the virtual keyboard after it was read, plus the state
// and the repeat request of the shadow mapper that is given the same events - and is judged by the same MapperTrace.tla.
struct WLcg(u64);
impl WLcg {
  fn next(&mut self) -> u64 { self.0 = self.0.wrapping_mul(6364136223846793005).wrapping_add(1442695040888963407); self.0 >> 33 }
  fn below(&mut self, n: u64) -> u64 { self.next() % n }
}

// wake = 0: one event per wake-up. wake != 0 (a seed): runs of up to four (rarely up to 24) consecutive key events have all arrived when the loop
// wakes up (it reads them in one drain), and now and then a signal interrupts the wait in front of a wake-up; the grouping is a
// function of the seed and the position only, so that a prefix of the history is grouped the same way (replay).
// sendfault = k: every k-th write is answered EAGAIN (0 = never); a loop that stops at the first one never meets the second.
fn walk_run(layout: &Layout, history: &[(Option<Event>, Vec<Event>)], noise: u8, wake: u64, sendfault: usize, faultrun: usize) -> (Sys, std::thread::Result<Result<(), String>>) {
  let mut labels: Vec<Lbl> = vec![];
  let mut rng = WLcg(wake.wrapping_mul(2654435761).wrapping_add(99991));
  let mut i = 0;
  while i < history.len() {
    let (h, unseen) = &history[i];
    i += 1;
    match h {
      Some(e) => {
        let mut group = vec![e.clone()];
        if wake != 0 {
          if rng.below(100) < 6 { labels.push(Lbl::PollIntr); }
          // now and then a long burst (a stalled process, a device that types a string in one go)
          let (cap, go_on) = if rng.below(100) < 3 { (24, 96) } else { (4, 55) };
          while group.len() < cap && i < history.len() && history[i].0.is_some() && rng.below(100) < go_on {
            group.push(history[i].0.clone().unwrap());
            i += 1;
          }
        }
        for g in &group { labels.push(Lbl::ArrK(Some(g.clone()))); }
        labels.push(Lbl::PollDev(true));
        for _ in 0..=group.len() { labels.push(Lbl::ReadK); }
      },
      None if unseen.is_empty() => { labels.push(Lbl::ArrT(true)); labels.push(Lbl::ArrT(false)); labels.push(Lbl::PollDev(true)); labels.push(Lbl::ReadT); labels.push(Lbl::ReadT); labels.push(Lbl::ReadT); },
      None => {
        // the switch goes on, keys move while tablet mode is on (the loop reads and drops them), the switch goes off: separate wake-ups
        labels.push(Lbl::ArrT(true)); labels.push(Lbl::PollDev(false)); labels.push(Lbl::ReadT); labels.push(Lbl::ReadT);
        for e in unseen { labels.push(Lbl::ArrK(Some(e.clone()))); labels.push(Lbl::PollDev(true)); labels.push(Lbl::ReadK); labels.push(Lbl::ReadK); }
        labels.push(Lbl::ArrT(false)); labels.push(Lbl::PollDev(false)); labels.push(Lbl::ReadT); labels.push(Lbl::ReadT);
      }
    }
  }
  let mut d = new_drv(layout, &labels, 0, &[]);
  d.log_state = true;
  d.cap = 100 + 12 * labels.len();
  d.send_fault = sendfault;
  d.fault_run = std::cmp::max(1, faultrun);     // how many writes in a row are answered EAGAIN each time (a consumer that stalls for a while)
  let _ = ScriptedDriver::register_poll(&mut d);
  let (kfd, tfd, wfd) = (new_fd(), new_fd(), new_fd());
  let unknown_code = (1u16..768).rev().find(|c| <KeyCode as FromPrimitive>::from_u16(*c).is_none()).unwrap_or(767);
  sys_install(Sys { d, kfd, tfd, wfd, kbytes: VecDeque::new(), tbytes: VecDeque::new(), noise, full: None, down: vec![], werr: if sendfault != 0 { E_AGAIN } else { E_IO }, unknown_code });
  let lay = layout.clone();
  let r = std::panic::catch_unwind(std::panic::AssertUnwindSafe(|| crate::remapping_loop::verif::run_real_driver(kfd, wfd, Some(tfd), lay)));
  let sys = sys_take();
  unsafe { libc::close(kfd); libc::close(tfd); libc::close(wfd); if sys.kfd != kfd { libc::close(sys.kfd); } if sys.tfd != tfd { libc::close(sys.tfd); } }
  (sys, r)
}

// the same run written as a call trace for LoopTrace.tla
pub fn walk_via_loop_trace(id: &str, layout: &Layout, history: &[(Option<Event>, Vec<Event>)], noise: u8, wake: u64, out: &mut dyn Write) {
  let (mut sys, r) = walk_run(layout, history, noise, wake, 0, 1);
  for rec in sys.d.log.iter_mut() { if let Some(o) = rec.as_object_mut() { o.remove("st"); } }
  write_trace(id, layout, 0, &[], &sys.d, r, json!({"mode": "sys", "slack": 999, "errtext": false, "noise": noise, "werr": 5}), out);
}

pub fn walk_via_loop(layout: &Layout, history: &[(Option<Event>, Vec<Event>)], noise: u8, wake: u64, sendfault: usize, faultrun: usize) -> Vec<Value> {
  let (sys, r) = walk_run(layout, history, noise, wake, sendfault, faultrun);
  // One record per event the loop read, in reading order. What the loop wrote is attributed to the event it belongs to by the
  // call sequence: a write belongs to the event read last - except that a reader which fetched several events ahead of the loop
  // (several reads in a row without a write) is given the benefit of the doubt: a write that is exactly what the shadow mapper
  // answers to the OLDEST fetched event that still waits for a non-empty answer belongs to that event.
  let mut out: Vec<Value> = vec![];
  let mut wants: Vec<(usize, Value)> = vec![];     // (index in out, the shadow's answer) of events read since the last write, oldest first
  let mut failed_write = false;
  let mut cut: Option<usize> = None;               // the step whose write failed, while nothing has been read or written since
  for rec in &sys.d.log {
    match (rec["c"].as_str().unwrap_or(""), rec["res"].as_str().unwrap_or("")) {
      ("kbd", "one") if rec["st"].is_null() => {         // read while tablet mode is on: the mapper is not given it; part of the reset step
        if let Some(c) = out.last_mut() {
          if c["e"]["unseen"].is_null() { c["e"]["unseen"] = json!([]); }
          c["e"]["unseen"].as_array_mut().unwrap().push(rec["e"].clone());
        }
      },
      ("kbd", "one") => {
        cut = None;
        out.push(json!({"c": "step", "e": rec["e"], "ev": [], "rep": rec["ref"]["rep"], "st": rec["st"], "panic": ""}));
        wants.push((out.len() - 1, rec["ref"]["ev"].clone()));
      },
      ("tab", "one") => {
        wants.clear();
        let ra = out.last().map(|c| c["e"]["t"].as_str() == Some("RA")).unwrap_or(false);
        if ra { out.last_mut().unwrap()["st"] = rec["st"].clone(); }
        else { out.push(json!({"c": "step", "e": {"t": "RA", "k": ""}, "ev": [], "rep": {"kind": "NoChange"}, "st": rec["st"], "panic": ""})); }
      },
      ("send", "ok") => {
        cut = None;
        let mut at = out.len().wrapping_sub(1);
        if wants.len() > 1 {
          if let Some(p) = wants.iter().position(|(_, want)| want.as_array().map(|a| !a.is_empty()).unwrap_or(false)) {
            if wants[p].1 == rec["evs"] { at = wants[p].0; wants.drain(0..=p); } else { wants.clear(); }
          } else { wants.clear(); }
        } else { wants.clear(); }
        if let Some(c) = out.get_mut(at) { for e in rec["evs"].as_array().unwrap() { c["ev"].as_array_mut().unwrap().push(e.clone()); } }
      },
      ("send", "err") => {
        failed_write = true;
        // the event the failed write belongs to (the same attribution as for a write that succeeded)
        let mut at = out.len().saturating_sub(1);
        if wants.len() > 1 {
          if let Some(p) = wants.iter().position(|(_, want)| want.as_array().map(|a| !a.is_empty()).unwrap_or(false)) {
            if wants[p].1 == rec["evs"] { at = wants[p].0; }
          }
        }
        cut = Some(at);
      },
      _ => ()
    }
  }
  // a loop that panicked or gave up is a walk that ends in a panic record (judged by C14 only); a loop that stops with an
  // error because a write failed is simply the end of the walk
  // (the step whose write failed is not judged when the loop did nothing more after it: it stopped there, as it may)
  if let Some(c) = cut { out.truncate(c); }
  let bad = match r { Ok(Ok(())) => String::new(), Ok(Err(_)) if failed_write => String::new(), Ok(Err(e)) => format!("the loop returned an error: {}", e), Err(e) => panic_msg(e) };
  if !bad.is_empty() {
    let st = out.last().map(|c| c["st"].clone()).unwrap_or(jstate(&Mapper::for_layout(layout).verif_snapshot()));
    out.push(json!({"c": "step", "e": {"t": "RA", "k": ""}, "ev": [], "rep": {"kind": "NoChange"}, "st": st, "panic": bad}));
  }
  out
}

// ---------------------------------------------------------------------------------------------
// Full-stack runs: do_remapping_loop_these_devices itself, i.e. open_device (DevInputReader::open with
// WaitReleaseAndExclude, DevInputWriter::open, TabletModeSwitchReader::open), the device thread, and then the
// loop as above. The start-up follows a schedule of spec/Startup.tla (keys down at open, arrivals between the
// opener's calls); every call of the start-up is logged as a record {"c":"su","k":<kind>,...} and judged by
// spec/StartupTrace.tla. Kernel side modelled: EVIOCGKEY reports the device's key state, EVIOCGRAB succeeds,
// /dev/uinput accepts UI_SET_EVBIT / UI_SET_KEYBIT, the uinput_user_dev write and UI_DEV_CREATE.
// ---------------------------------------------------------------------------------------------
pub const KPATH: &str = "/dev/input/verif-event-keyboard";
pub const TPATH: &str = "/dev/input/verif-event-tablet";
const UPATH: &str = "/dev/uinput";

#[derive(Clone, Debug)]
enum SuLbl { Held(KeyCode), Arr(Event), Call(String) }

struct Full {
  phase: u8,                 // 0 = keyboard start-up, 1 = uinput set-up, 2 = the loop
  sched: VecDeque<SuLbl>,
  loop_noise: u8,
  keybits: Vec<i64>,         // consecutive UI_SET_KEYBIT values, logged as one record
  registered: bool
}

fn parse_su_labels(v: &Value) -> Vec<SuLbl> {
  v.as_array().map(|a| a.iter().map(|l| {
    let (a, t, k) = (l["a"].as_str().unwrap_or(""), l["t"].as_str().unwrap_or(""), l["k"].as_str().unwrap_or(""));
    match a {
      "held" => SuLbl::Held(kparse(k).unwrap()),
      "arrK" => SuLbl::Arr(pev(&json!({"t": t, "k": k})).unwrap()),
      c => SuLbl::Call(c.to_string())
    }
  }).collect()).unwrap_or_default()
}

impl Sys {
  fn su_log(&mut self, mut rec: Value) {
    rec["c"] = json!("su");
    rec["arrK"] = Value::Array(std::mem::take(&mut self.d.arr_k));
    rec["arrT"] = json!([]);
    let t = self.d.us();
    rec["tin"] = json!(t); rec["tout"] = json!(t);
    self.d.log.push(rec);
  }
  fn flush_keybits(&mut self) {
    let kb = std::mem::take(&mut self.full.as_mut().unwrap().keybits);
    if !kb.is_empty() { self.su_log(json!({"k": "keybits", "vals": kb})); }
  }
  // deliver the arrivals the schedule places before the opener's next call, and consume that call's label
  fn su_step(&mut self) {
    loop {
      let f = self.full.as_mut().unwrap();
      match f.sched.pop_front() {
        Some(SuLbl::Arr(e)) => self.d.arrive_k(Some(e)),
        Some(SuLbl::Held(_)) => (),
        Some(SuLbl::Call(_)) | None => break
      }
    }
  }
  fn su_open(&mut self, path: &str, flags: i32) -> Option<i32> {
    let (kind, fd) = if path == KPATH { ("kopen", self.kfd) } else if path == TPATH { ("topen", self.tfd) } else if path == UPATH { ("uopen", self.wfd) } else { return None; };
    if kind == "uopen" { self.full.as_mut().unwrap().phase = 1; }
    self.su_log(json!({"k": kind, "flags": flags}));
    Some(fd)
  }
  fn su_ioctl(&mut self, fd: i32, req: libc::c_ulong, arg: *mut libc::c_void) -> (i32, i32) {
    let (ty, nr, size) = (((req >> 8) & 0xff) as u8, (req & 0xff) as u32, ((req >> 16) & 0x3fff) as usize);
    if fd == self.kfd && ty == b'E' && nr == 0x18 {
      // EVIOCGKEY(len): the device's key state as a bitmap
      self.su_step();
      let buf = unsafe { std::slice::from_raw_parts_mut(arg as *mut u8, size) };
      for b in buf.iter_mut() { *b = 0; }
      for k in &self.d.phys_down { let c = *k as usize; if c / 8 < size { buf[c / 8] |= 1 << (c % 8); } }
      let names: Vec<String> = self.d.phys_down.iter().map(|k| kname(k)).collect();
      self.su_log(json!({"k": "gkey", "len": size, "down": names}));
      return (size as i32, 0);
    }
    if fd == self.kfd && ty == b'E' && nr == 0x90 {
      self.su_step();
      let v = if arg.is_null() { 0 } else { unsafe { *(arg as *const i32) } };
      self.su_log(json!({"k": "grab", "arg": v}));
      return (0, 0);
    }
    if fd == self.wfd && ty == b'U' && nr == 100 { self.flush_keybits(); self.su_log(json!({"k": "evbit", "v": arg as usize as i64})); return (0, 0); }
    if fd == self.wfd && ty == b'U' && nr == 101 { self.full.as_mut().unwrap().keybits.push(arg as usize as i64); return (0, 0); }
    if fd == self.wfd && ty == b'U' && nr == 1 {
      self.flush_keybits();
      self.su_log(json!({"k": "create"}));
      let f = self.full.as_mut().unwrap();
      f.phase = 2;
      self.noise = f.loop_noise;
      return (0, 0);
    }
    self.flush_keybits();
    self.su_log(json!({"k": "ioctl", "fd": if fd == self.kfd { "keyboard" } else if fd == self.wfd { "uinput" } else { "tablet" }, "type": ty, "nr": nr}));
    (0, 0)
  }
  // wait_for_any_activity: one record from the client buffer, or EAGAIN
  fn su_read(&mut self, buf: *mut u8, count: usize) -> (isize, i32) {
    self.su_step();
    if count < 24 { return (-1, 22); }
    match self.d.kq.front() {
      Some(Some(_)) => {
        let e = self.d.kq.pop_front().unwrap().unwrap();
        let (code, value) = match &e { Event::Pressed(k) => (*k as u16, 1), Event::Released(k) => (*k as u16, 0) };
        let f = frame(1, code, value);
        unsafe { std::ptr::copy_nonoverlapping(f.as_ptr(), buf, 24); }
        self.su_log(json!({"k": "read", "res": "one", "e": jev(&e)}));
        (24, 0)
      },
      _ => { self.su_log(json!({"k": "read", "res": "busy", "e": {"t": "-", "k": ""}})); (-1, E_AGAIN) }
    }
  }
  // wait_for_any_activity's own poll (no time-out): returns once the buffer is readable
  fn su_poll(&mut self, events: *mut libc::epoll_event) -> (i32, i32) {
    self.su_step();
    while self.d.kq.is_empty() {
      // a legal environment lets go of the keys in the end: the next scheduled arrival, else a release of a key that is down
      let next = { let f = self.full.as_mut().unwrap(); let mut n = None; while let Some(l) = f.sched.pop_front() { if let SuLbl::Arr(e) = l { n = Some(e); break; } } n };
      match next {
        Some(e) => self.d.arrive_k(Some(e)),
        None => match self.d.phys_down.first().cloned() { Some(k) => self.d.arrive_k(Some(Event::Released(k))), None => break }
      }
    }
    self.su_log(json!({"k": "poll", "res": if self.d.kq.is_empty() { "timeout" } else { "dev" }}));
    if self.d.kq.is_empty() { return (0, 0); }
    unsafe { std::ptr::write_unaligned(events, libc::epoll_event { events: libc::EPOLLIN as u32, u64: 0 }); }
    (1, 0)
  }
  fn su_udev_write(&mut self, buf: *const u8, count: usize) -> (isize, i32) {
    self.flush_keybits();
    let bytes: Vec<u8> = unsafe { std::slice::from_raw_parts(buf, count) }.to_vec();
    self.su_log(json!({"k": "udev", "bytes": bytes}));
    (count as isize, 0)
  }
}

fn run_one_full(id: &str, layout: &Layout, labels: &[Lbl], su: &[SuLbl], noise: u8, out: &mut dyn Write) -> usize {
  let mut d = new_drv(layout, labels, 0, &[]);
  for l in su { if let SuLbl::Held(k) = l { d.phys_down.push(*k); } }
  let (kfd, tfd, wfd) = (new_fd(), new_fd(), new_fd());
  let unknown_code = (1u16..768).rev().find(|c| <KeyCode as FromPrimitive>::from_u16(*c).is_none()).unwrap_or(767);
  let full = Full { phase: 0, sched: su.iter().cloned().collect(), loop_noise: noise, keybits: vec![], registered: false };
  sys_install(Sys { d, kfd, tfd, wfd, kbytes: VecDeque::new(), tbytes: VecDeque::new(), noise: 0, full: Some(full), down: vec![], werr: E_IO, unknown_code });
  let lay = layout.clone();
  let r = std::panic::catch_unwind(std::panic::AssertUnwindSafe(|| {
    crate::remapping_loop::do_remapping_loop_these_devices(&vec![std::path::PathBuf::from(KPATH)], &lay, &Some(std::path::PathBuf::from(TPATH)), false)
  }));
  let sys = sys_take();
  unsafe { libc::close(kfd); libc::close(tfd); libc::close(wfd); }
  let held: Vec<String> = su.iter().filter_map(|l| if let SuLbl::Held(k) = l { Some(kname(k)) } else { None }).collect();
  write_trace(id, layout, 0, &[], &sys.d, r, json!({"mode": "full", "slack": 999, "errtext": false, "noise": noise, "werr": 5, "held": held}), out);
  sys.d.calls
}
