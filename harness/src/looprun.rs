pub fn cmd_loop(_path: &str) { unimplemented!() }
