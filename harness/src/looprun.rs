// Runs the REAL per-device loop (do_remapping_loop_one_device, through the cfg-guarded
// remapping_loop::verif entry) against a scripted driver and records every driver call.
//
// The driver is the environment half of spec/Loop.tla: two queues of unread events, edge-triggered
// readiness flags, a poll that reports the flagged devices / times out / is interrupted, and an
// optional injected failure of the k-th call. A schedule (a behaviour of Loop.tla's environment,
// printed by TLC) is advice about WHEN things arrive and how polls are answered; the driver follows
// it as far as the real loop's calls allow and always stays a legal environment; what actually
// happened is what gets logged, and that is what TLC validates (spec/LoopTrace.tla).
// Next to each read the recorder logs what the REAL mapper answers to the event (a shadow Mapper that
// lives as long as the loop, and a second one that is re-created at every tablet event): the
// references C10 and C12 are relative to. No comparison is made here.
use crate::j::*;
use crate::keys::{Layout, KeyCode, Event};
use crate::key_transforms::{Mapper, ResultingRepeat};
use crate::remapping_loop::verif::{ScriptedDriver, VPoll, VNext, run_one_device};
use serde_json::{json, Value};
use std::collections::VecDeque;
use std::io::Write;
use std::time::{Duration, Instant};

#[derive(Clone, Debug)]
enum Lbl { ArrK(Option<Event>), ArrT(bool), PollDev(bool), PollTimeout, PollIntr, ReadK, ReadT }

fn parse_labels(v: &Value) -> Vec<Lbl> {
  v.as_array().unwrap().iter().map(|l| {
    let (a, t, k, x) = (l["a"].as_str().unwrap_or(""), l["t"].as_str().unwrap_or(""), l["k"].as_str().unwrap_or(""), l["x"].as_str().unwrap_or(""));
    match a {
      "arrK" => if t == "E" { Lbl::ArrK(None) } else { Lbl::ArrK(Some(pev(&json!({"t": t, "k": k})).unwrap())) },
      "arrT" => Lbl::ArrT(t == "On"),
      "poll" => match t { "dev" => Lbl::PollDev(x != "TK"), "timeout" => Lbl::PollTimeout, _ => Lbl::PollIntr },
      "readK" => Lbl::ReadK,
      _ => Lbl::ReadT
    }
  }).collect()
}

struct Drv {
  t0: Instant,
  sched: VecDeque<Lbl>,
  kq: VecDeque<Option<Event>>, tq: VecDeque<bool>,
  k_ready: bool, t_ready: bool,
  ended: bool,            // end-of-device has been queued
  log: Vec<Value>,
  shadow: Mapper, fresh: Mapper, layout: Layout,
  in_tab: bool,
  calls: usize, fault: usize, cap: usize,
  sleep: Vec<String>,     // how the successive TimedOut answers to timed polls behave: "no" | "yes" | "over" | "late" (the last entry repeats)
  nsleep: usize,
  intr_ok: bool,          // no two interruptions without a device report in between (the loop sleeps 4 s by design)
  arr_k: Vec<Value>, arr_t: Vec<Value>   // arrivals delivered since the last logged call
}

impl Drv {
  fn us(&self) -> u64 { self.t0.elapsed().as_micros() as u64 }
  fn arrive_k(&mut self, e: Option<Event>) {
    if self.ended { return; }           // nothing arrives after end-of-device
    self.arr_k.push(match &e { Some(e) => jev(e), None => json!({"t": "E", "k": ""}) });
    if e.is_none() { self.ended = true; }
    self.kq.push_back(e); self.k_ready = true;
  }
  fn arrive_t(&mut self, on: bool) {
    self.arr_t.push(json!(if on { "On" } else { "Off" }));
    self.tq.push_back(on); self.t_ready = true;
  }
  // deliver the arrivals the schedule places before the next poll / read label
  fn deliver_arrivals(&mut self) {
    loop {
      match self.sched.front() {
        Some(Lbl::ArrK(_)) => { if let Some(Lbl::ArrK(e)) = self.sched.pop_front() { self.arrive_k(e); } },
        Some(Lbl::ArrT(_)) => { if let Some(Lbl::ArrT(b)) = self.sched.pop_front() { self.arrive_t(b); } },
        _ => break
      }
    }
  }
  fn begin(&mut self, c: &str) -> (Value, bool) {
    self.calls += 1;
    let faulty = self.fault != 0 && self.calls == self.fault;
    (json!({"c": c, "n": self.calls, "tin": self.us()}), faulty || self.calls > self.cap)
  }
  fn end(&mut self, mut rec: Value) {
    rec["arrK"] = Value::Array(std::mem::take(&mut self.arr_k));
    rec["arrT"] = Value::Array(std::mem::take(&mut self.arr_t));
    rec["tout"] = json!(self.us());
    self.log.push(rec);
  }
  fn errmsg(&self) -> String {
    if self.calls > self.cap { format!("harness: more than {} driver calls", self.cap) } else { format!("injected failure of driver call {}", self.calls) }
  }
}

fn noref() -> Value { json!({"ev": [], "rep": {"kind": "NoChange"}}) }

impl ScriptedDriver for Drv {
  fn register_poll(&mut self) -> Result<(), String> {
    let (mut rec, fail) = self.begin("register");
    rec["res"] = json!(if fail { "err" } else { "ok" });
    if fail { rec["err"] = json!(self.errmsg()); }
    self.end(rec);
    if fail { Err(self.errmsg()) } else { Ok(()) }
  }

  fn poll(&mut self, timeout: Option<Duration>) -> Result<VPoll, String> {
    let (mut rec, fail) = self.begin("poll");
    rec["timeout"] = json!(timeout.map(|d| d.as_micros() as i64).unwrap_or(-1));
    if fail {
      rec["res"] = json!("err"); rec["devs"] = json!([]); rec["err"] = json!(self.errmsg());
      self.end(rec);
      return Err(self.errmsg());
    }
    // follow the schedule up to its next poll label; reads the loop did not make are skipped
    let answer: VPoll;
    loop {
      self.deliver_arrivals();
      match self.sched.pop_front() {
        Some(Lbl::ReadK) | Some(Lbl::ReadT) => continue,
        Some(Lbl::PollIntr) if self.intr_ok => { self.intr_ok = false; answer = VPoll::Interrupted; break; },
        Some(Lbl::PollIntr) => continue,
        Some(Lbl::PollTimeout) if !(self.k_ready || self.t_ready) => {
          if let Some(t) = timeout {
            let mode = if self.sleep.is_empty() { "no".to_string() } else { self.sleep[std::cmp::min(self.nsleep, self.sleep.len() - 1)].clone() };
            self.nsleep += 1;
            match mode.as_str() {
              "yes" => std::thread::sleep(t),                                        // the time-out elapses
              "over" => std::thread::sleep(t + Duration::from_micros(2500)),           // served a little late
              "late" => std::thread::sleep(t + Duration::from_millis(8)),              // served several intervals late (a stalled process)
              _ => ()                                                                 // answered at once: only the requested values are observed
            }
          }
          answer = VPoll::TimedOut; break;
        },
        Some(Lbl::PollTimeout) => { answer = self.report(true); break; },
        Some(Lbl::PollDev(korder)) => {
          if self.k_ready || self.t_ready { answer = self.report(korder); break; } else { continue; }
        },
        Some(Lbl::ArrK(_)) | Some(Lbl::ArrT(_)) => unreachable!(),
        None => {
          // schedule exhausted: the keyboard goes away, so that the loop terminates
          if !self.ended { self.arrive_k(None); }
          if self.k_ready || self.t_ready { answer = self.report(true); } else { answer = VPoll::TimedOut; }
          break;
        }
      }
    }
    match &answer {
      VPoll::Devices(ds) => { rec["res"] = json!("dev"); rec["devs"] = json!(ds.iter().map(|k| if *k { "K" } else { "T" }).collect::<Vec<_>>()); },
      VPoll::TimedOut => { rec["res"] = json!("timeout"); rec["devs"] = json!([]); },
      VPoll::Interrupted => { rec["res"] = json!("intr"); rec["devs"] = json!([]); }
    }
    self.end(rec);
    Ok(answer)
  }

  fn next_keyboard(&mut self) -> Result<VNext<Event>, String> {
    let (mut rec, fail) = self.begin("kbd");
    rec["e"] = json!({"t": "-", "k": ""}); rec["ref"] = noref(); rec["ref2"] = noref();
    if fail { rec["res"] = json!("err"); rec["err"] = json!(self.errmsg()); self.end(rec); return Err(self.errmsg()); }
    self.deliver_arrivals();
    if let Some(Lbl::ReadK) = self.sched.front() { self.sched.pop_front(); }
    let r = match self.kq.front() {
      None => { rec["res"] = json!("busy"); VNext::Busy },
      Some(None) => { rec["res"] = json!("end"); VNext::End },
      Some(Some(_)) => {
        let e = self.kq.pop_front().unwrap().unwrap();
        rec["res"] = json!("one"); rec["e"] = jev(&e);
        if !self.in_tab {
          let a = self.shadow.step(e.clone());
          let b = self.fresh.step(e.clone());
          rec["ref"] = json!({"ev": jevs(&a.events), "rep": jrep(&a.repeat)});
          rec["ref2"] = json!({"ev": jevs(&b.events), "rep": jrep(&b.repeat)});
        }
        VNext::One(e)
      }
    };
    self.end(rec);
    Ok(r)
  }

  fn next_tablet(&mut self) -> Result<VNext<bool>, String> {
    let (mut rec, fail) = self.begin("tab");
    rec["on"] = json!(false); rec["ref"] = json!({"ev": []});
    if fail { rec["res"] = json!("err"); rec["err"] = json!(self.errmsg()); self.end(rec); return Err(self.errmsg()); }
    self.deliver_arrivals();
    if let Some(Lbl::ReadT) = self.sched.front() { self.sched.pop_front(); }
    let r = match self.tq.pop_front() {
      None => { rec["res"] = json!("busy"); VNext::Busy },
      Some(on) => {
        self.in_tab = on;
        let evs = self.shadow.release_all();
        self.fresh = Mapper::for_layout(&self.layout);     // "resumes as from a fresh start"
        rec["res"] = json!("one"); rec["on"] = json!(on); rec["ref"] = json!({"ev": jevs(&evs)});
        VNext::One(on)
      }
    };
    self.end(rec);
    Ok(r)
  }

  fn send(&mut self, evs: &Vec<Event>) -> Result<(), String> {
    let (mut rec, fail) = self.begin("send");
    rec["evs"] = jevs(evs);
    rec["res"] = json!(if fail { "err" } else { "ok" });
    if fail { rec["err"] = json!(self.errmsg()); }
    self.end(rec);
    if fail { Err(self.errmsg()) } else { Ok(()) }
  }
}

impl Drv {
  // poll reports the flagged devices and clears their flags (edge-triggered)
  fn report(&mut self, korder: bool) -> VPoll {
    let mut d = vec![];
    if self.k_ready { d.push(true); }
    if self.t_ready { d.push(false); }
    if !korder { d.reverse(); }
    self.k_ready = false; self.t_ready = false; self.intr_ok = true;
    VPoll::Devices(d)
  }
}

fn run_one(id: &str, layout: &Layout, labels: &[Lbl], fault: usize, sleep: &[String], out: &mut dyn Write) -> usize {
  let mut d = Drv {
    t0: Instant::now(), sched: labels.iter().cloned().collect(), kq: VecDeque::new(), tq: VecDeque::new(),
    k_ready: false, t_ready: false, ended: false, log: vec![],
    shadow: Mapper::for_layout(layout), fresh: Mapper::for_layout(layout), layout: layout.clone(), in_tab: false,
    calls: 0, fault, cap: 400 + 20 * labels.len(), sleep: sleep.to_vec(), nsleep: 0, intr_ok: true, arr_k: vec![], arr_t: vec![]
  };
  let r = std::panic::catch_unwind(std::panic::AssertUnwindSafe(|| run_one_device(&mut d, layout.clone())));
  writeln!(out, "{}", json!({"c": "reset", "id": id, "layout": jlayout(layout), "fault": fault, "sleep": sleep})).unwrap();
  for l in &d.log { writeln!(out, "{}", l).unwrap(); }
  let ret = match r {
    Ok(Ok(())) => json!({"c": "ret", "ok": true, "err": "", "panic": false}),
    Ok(Err(e)) => json!({"c": "ret", "ok": false, "err": e, "panic": false}),
    Err(e) => json!({"c": "ret", "ok": false, "err": panic_msg(e), "panic": true})
  };
  writeln!(out, "{}", ret).unwrap();
  d.calls
}

// {id, layout, sched, sleep, faults}: faults = 0 (none) | k | "all" (a fault-free run, then one run per call index)
pub fn cmd_loop(path: &str) {
  let out = std::io::stdout();
  let mut out = std::io::BufWriter::new(out.lock());
  for c in read_ndjson(path) {
    let layout = playout(&c["layout"]).unwrap_or_else(|e| { eprintln!("bad layout: {}", e); std::process::exit(2) });
    let labels = parse_labels(&c["sched"]);
    let id = c["id"].as_str().map(|s| s.to_string()).unwrap_or_else(|| c["id"].to_string());
    let sleep: Vec<String> = match &c["sleep"] {
      Value::Array(a) => a.iter().map(|x| x.as_str().unwrap_or("no").to_string()).collect(),
      v => vec![v.as_str().unwrap_or("no").to_string()]
    };
    if c["faults"].as_str() == Some("all") {
      let n = run_one(&id, &layout, &labels, 0, &sleep, &mut out);
      for k in 1..=n { run_one(&format!("{}/f{}", id, k), &layout, &labels, k, &sleep, &mut out); }
    } else {
      let k = c["faults"].as_u64().unwrap_or(0) as usize;
      let tid = if k == 0 { id.clone() } else { format!("{}/f{}", id, k) };
      run_one(&tid, &layout, &labels, k, &sleep, &mut out);
    }
  }
}
