; ModuleID = 'probe0.c4a03c8a7acda30-cgu.0'
source_filename = "probe0.c4a03c8a7acda30-cgu.0"
target datalayout = "e-m:e-p270:32:32-p271:32:32-p272:64:64-i64:64-i128:128-f80:128-n8:16:32:64-S128"
target triple = "x86_64-unknown-linux-gnu"

!llvm.module.flags = !{!0, !1}
!llvm.ident = !{!2}

!0 = !{i32 8, !"PIC Level", i32 2}
!1 = !{i32 2, !"RtLibUseGOT", i32 1}
!2 = !{!"rustc version 1.95.0 (59807616e 2026-04-14)"}
