; ModuleID = 'probe1.103258e1af9ac305-cgu.0'
source_filename = "probe1.103258e1af9ac305-cgu.0"
target datalayout = "e-m:e-p270:32:32-p271:32:32-p272:64:64-i64:64-i128:128-f80:128-n8:16:32:64-S128"
target triple = "x86_64-unknown-linux-gnu"

@alloc_f93507f8ba4b5780b14b2c2584609be0 = private unnamed_addr constant [8 x i8] c"\00\00\00\00\00\00\F0?", align 8
@alloc_ef0a1f828f3393ef691f2705e817091c = private unnamed_addr constant [8 x i8] c"\00\00\00\00\00\00\00@", align 8

; core::f64::<impl f64>::total_cmp
; Function Attrs: inlinehint nonlazybind uwtable
define internal i8 @"_ZN4core3f6421_$LT$impl$u20$f64$GT$9total_cmp17h2464dd2b82c7459bE"(ptr align 8 %self, ptr align 8 %other) unnamed_addr #0 {
start:
  %_6 = alloca [8 x i8], align 8
  %_3 = alloca [8 x i8], align 8
  %_5 = load double, ptr %self, align 8
  %_4 = bitcast double %_5 to i64
  store i64 %_4, ptr %_3, align 8
  %_8 = load double, ptr %other, align 8
  %_7 = bitcast double %_8 to i64
  store i64 %_7, ptr %_6, align 8
  %_13 = load i64, ptr %_3, align 8
  %_12 = ashr i64 %_13, 63
  %_10 = lshr i64 %_12, 1
  %0 = load i64, ptr %_3, align 8
  %1 = xor i64 %0, %_10
  store i64 %1, ptr %_3, align 8
  %_18 = load i64, ptr %_6, align 8
  %_17 = ashr i64 %_18, 63
  %_15 = lshr i64 %_17, 1
  %2 = load i64, ptr %_6, align 8
  %3 = xor i64 %2, %_15
  store i64 %3, ptr %_6, align 8
  %4 = load i64, ptr %_3, align 8
  %5 = load i64, ptr %_6, align 8
  %_0 = call i8 @llvm.scmp.i8.i64(i64 %4, i64 %5)
  ret i8 %_0
}

; probe1::probe
; Function Attrs: nonlazybind uwtable
define void @_ZN6probe15probe17ha84fcc02d0d1c740E() unnamed_addr #1 {
start:
; call core::f64::<impl f64>::total_cmp
  %_1 = call i8 @"_ZN4core3f6421_$LT$impl$u20$f64$GT$9total_cmp17h2464dd2b82c7459bE"(ptr align 8 @alloc_f93507f8ba4b5780b14b2c2584609be0, ptr align 8 @alloc_ef0a1f828f3393ef691f2705e817091c) #3
  ret void
}

; Function Attrs: nocallback nocreateundeforpoison nofree nosync nounwind speculatable willreturn memory(none)
declare range(i8 -1, 2) i8 @llvm.scmp.i8.i64(i64, i64) #2

attributes #0 = { inlinehint nonlazybind uwtable "probe-stack"="inline-asm" "target-cpu"="x86-64" }
attributes #1 = { nonlazybind uwtable "probe-stack"="inline-asm" "target-cpu"="x86-64" }
attributes #2 = { nocallback nocreateundeforpoison nofree nosync nounwind speculatable willreturn memory(none) }
attributes #3 = { inlinehint }

!llvm.module.flags = !{!0, !1}
!llvm.ident = !{!2}

!0 = !{i32 8, !"PIC Level", i32 2}
!1 = !{i32 2, !"RtLibUseGOT", i32 1}
!2 = !{!"rustc version 1.95.0 (59807616e 2026-04-14)"}
