// Generates the module list that pulls the repository's sources into this crate.
use std::io::Write;
fn main() {
  let repo = std::env::var("VERIF_REPO").unwrap_or_else(|_| "/repo".to_string());
  println!("cargo:rerun-if-env-changed=VERIF_REPO");
  println!("cargo:rerun-if-changed=build.rs");
  let mods = [
    "key_codes", "events", "keys", "fancy_keys", "fancy_layout_interpreting", "key_transforms",
    "dev_input_rw", "struct_ser", "default_fancy_layouts", "remapping_loop", "keyboard_listing",
    "udev_utils", "layout_loading", "tablet_mode_switch_reader", "example_hardware",
    "layout_parsing_formatting", "char_production_map", "physical_keyboard_layouts",
  ];
  let out = std::path::Path::new(&std::env::var("OUT_DIR").unwrap()).join("mods.rs");
  let mut f = std::fs::File::create(out).unwrap();
  for m in mods.iter() {
    let p = format!("{}/src/{}.rs", repo, m);
    println!("cargo:rerun-if-changed={}", p);
    writeln!(f, "#[path = \"{}\"] mod {};", p, m).unwrap();
  }
}
