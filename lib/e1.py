# Engine E1: mapper tables. generate layouts -> tabulate the real Mapper (tmv tabulate) -> TLC
# model-checks MapperImplMC (property clauses + conformance with Mapper.tla) over every shard.
import shutil, json, os, time
from common import *
import families as F

# antecedent tags counted per property; the ones in REQUIRED must be exercised or the run is vacuous
TAGS = {
    "C01": ["C01-rest"],
    "C02": ["C02-held", "C02-ineffect", "C02-release", "RA-events"],
    "C03": ["C03-cand", "C03-cand-several", "C03-mentioned", "C03-passthrough", "C03-dup-press"],
    "C04": ["C04-keypress", "C04-mods-down-before"],
    "C05": ["C05-foreign-event", "C05-foreign-held", "C05-empty-layout", "C05-release", "C05-stays-ineffect"],
    "C07": ["C07-fired", "C07-window-release"],
    "C08": ["C08-press-while-absorbed", "C08-refire", "C08-absorbing-fired", "C08-counts-again"],
    "C09": ["C09-special-fired", "C09-ignored-event", "C09-cancelling-event"],
    "C19": ["C19-events", "RA-events"],
    "C14": [],
}
# release_all is explored as an operation of its own where the property speaks about it (C19: every release-all batch; C02: a release never
# presses) - not for C01, whose statement is about physical releases only (what release_all leaves behind is C06's business)
WITH_RA = {"C02", "C19", "C14", "C03"}

SIZES = {
    # per_pair, triples, seeded pairs, seeded triples
    "quick": dict(per_pair=2, n_triples=60, extra_pairs=0, extra_triples=0),
    "thorough": dict(per_pair=12, n_triples=900, extra_pairs=600, extra_triples=600),
}


def family(prop, tier, exe, wd):
    thorough = tier == "thorough"
    sz = SIZES[tier]
    sd = seed() if thorough else None
    builtins = [json.loads(l) for l in run_tmv(exe, ["builtins"]).splitlines() if l.strip()]
    big = F.builtin_jobs(builtins, thorough) + F.readme_jobs()
    empty = [F.job("empty", [])]
    if prop in ("C01", "C02", "C19", "C05"):
        small = F.small_family("all", F.anyl, sz["per_pair"], sz["n_triples"], sd, sz["extra_pairs"], sz["extra_triples"])
        if not thorough and prop in ("C02", "C05"):
            # the clauses of these two are the most expensive on the 346-mapping built-in: one sub-alphabet per built-in in the quick tier
            big = [j for j in big if not j["id"].startswith("builtin-") or j["id"].endswith("-0") or j["id"].endswith("-n4")]
        jobs = big + empty + small + F.small_n4("n4", F.anyl, 60 if not thorough else 600)
        if prop == "C01" or thorough:
            jobs += F.abs_cross()
        if prop == "C05":
            d = F.dist_family("dist", 1 if not thorough else 3, 40 if not thorough else 400, sd, 0 if not thorough else 200)
            jobs += d if thorough else [j for i, j in enumerate(d) if i % 3 == 0]
    elif prop in ("C03", "C04"):
        small = F.small_family("nonabs", F.no_abs, sz["per_pair"] // 2 or 1, sz["n_triples"] // 2, sd, sz["extra_pairs"] // 2, sz["extra_triples"] // 2)
        dist = F.dist_family("dist", 1 if not thorough else 6, 80 if not thorough else 1200, sd, 0 if not thorough else 600)
        jobs = [j for j in big if "fancy" in j] + dist + small
    elif prop in ("C07", "C09"):
        pred = F.has_norep if prop == "C07" else F.has_special
        small = F.small_family("norep" if prop == "C07" else "special", pred, sz["per_pair"], sz["n_triples"], sd, sz["extra_pairs"], sz["extra_triples"])
        jobs = [j for j in big if j["id"].startswith("builtin-super-dvorak") or j["id"].startswith("readme")] + small + F.small_n4("n4norep", pred, 50 if not thorough else 500)
    elif prop == "C08":
        small = F.small_family("abs", F.has_abs, sz["per_pair"], sz["n_triples"] * 2, sd, sz["extra_pairs"], sz["extra_triples"] * 2)
        jobs = small + abs_extra(thorough) + F.abs_cross(every=1 if thorough else 3) + F.small_n4("n4abs", F.has_abs, 36 if not thorough else 500)
    else:
        raise ToolError("no family for " + prop)
    pred = {"C03": F.no_abs, "C04": F.no_abs, "C07": F.has_norep, "C09": F.has_special, "C08": F.has_abs}.get(prop)
    jobs += F.modifier_table(pred)
    jobs += fancy_ref_jobs(pred, 60 if not thorough else 400)
    import e3
    jobs += F.per_key(e3.tool_keys(exe, wd), pred, 2 if not thorough else 3)
    return jobs


def fancy_ref_jobs(pred, n):
    """Source programs of the layout language (FancyGen.tla, the C13 family) loaded by the REAL loader into the real mapper, while the
    layout the properties are judged against is the REFERENCE expansion Fancy!Expand computed by TLC: the properties are about the
    layout the user wrote. Only programs whose every source item expands to exactly one mapping (no ordering freedom inside a block)."""
    import hashlib
    h = hashlib.sha1()
    for f in ("Fancy.tla", "FancyGen.tla"):
        h.update(open(os.path.join(SPEC, f), "rb").read())
    cdir = os.path.join(ROOT, "work", "cache")
    os.makedirs(cdir, exist_ok=True)
    cpath = os.path.join(cdir, "fancygen-size1-%s.ndjson" % h.hexdigest()[:12])
    if not os.path.exists(cpath):
        import e3
        wd = workdir("fancygen-cache-%d" % os.getpid())       # (two checks may start at the same time)
        p, _ = e3.generate_fancy(wd, 1, timeout=1800)
        os.replace(p, cpath)
        shutil.rmtree(wd, ignore_errors=True)
    # spread the sample over the kinds of source programs (which item types, which repeat modes, absorbing or not), not over their number
    def sig(src, lay):
        items = src.get("mappings", [])
        kinds = set()
        for m in items:
            if isinstance(m, dict):
                to = m.get("to")
                kinds.add("alias" if isinstance(to, str) and to.startswith("@") or (isinstance(to, list) and to and isinstance(to[-1], str) and to[-1].startswith("@") and "from" in m and len(m) <= 2)
                          else "reponly" if "to" not in m and "repeat" in m else "row" if any(isinstance(x, dict) for x in (m.get("from") if isinstance(m.get("from"), list) else [])) else "single")
        perm = any(a["from"] != b["from"] and sorted(a["from"]) == sorted(b["from"]) for a in lay for b in lay)
        return (tuple(sorted(kinds)), tuple(sorted({m["repeat"]["kind"] for m in lay})), any(m["absorbing"] for m in lay), len(lay), perm)
    out, seen = [], set()
    with open(cpath) as f:
        for line in f:
            if '"ok":true' not in line:
                continue
            c = json.loads(line)
            e = c["expect"]
            lay = e["mappings"]
            if not e["ok"] or not (1 <= len(lay) <= 6):
                continue
            # inside the block of one source item the order of the mappings is not fixed by C13: only programs where that order cannot matter to the
            # mapper - every block has one mapping, or its mappings all end in different trigger keys (rows)
            pos, okb = 0, True
            for b in e["blocks"] + e["tailblocks"]:
                lasts = [m["from"][-1] for m in lay[pos:pos + b]]
                okb = okb and len(set(lasts)) == len(lasts)
                pos += b
            if not okb or pos != len(lay):
                continue
            if pred is not None and not pred(lay):
                continue
            key = json.dumps(lay, sort_keys=True) + str(sig(c["json"], lay)[0])     # one per (reference layout, kinds of source items)
            if key in seen:
                continue
            seen.add(key)
            out.append((c["id"], c["json"], lay))
    groups = {}
    for t in out:
        groups.setdefault(sig(t[1], t[2]), []).append(t)
    picked = []
    gl = [groups[k] for k in sorted(groups, key=lambda k: (len(groups[k]), str(k)))]      # rare kinds first
    i = 0
    while len(picked) < n and any(gl):
        g = gl[i % len(gl)]
        if g:
            picked.append(g.pop(len(g) // 2))
        i += 1
    jobs = []
    for cid, src, lay in picked:
        ks = []
        for m in lay:
            for k in m["from"] + m["to"] + m["absorbing"]:
                if k not in ks:
                    ks.append(k)
        for k in ("F", "LEFTALT"):
            if k not in ks:
                ks.append(k)
        jobs.append({"id": "fancyref-%d" % cid, "fancy": src, "layout_ref": lay, "keys": ks[:8], "maxheld": 3})
    return jobs


def abs_extra(thorough):
    """C08: any key as M, several absorbing mappings, overlapping plain mappings."""
    N, D, S, M = F.N, F.D, F.S, F.M
    lays = [
        [M(["C", "A"], ["X"], N, ["C"]), M(["C", "B"], ["Y"])],
        [M(["C", "A"], ["X"], N, ["C"]), M(["C", "B"], ["Y"]), M(["C"], [])],
        [M(["LEFTSHIFT", "A"], ["X"], N, ["LEFTSHIFT"]), M(["LEFTSHIFT", "B"], ["Y"]), M(["B"], ["D"])],
        [M(["LEFTSHIFT", "A"], ["LEFTCTRL", "X"], D, ["LEFTSHIFT"]), M(["LEFTSHIFT", "B"], ["Y"])],
        [M(["C", "LEFTSHIFT", "A"], ["X"], N, ["C", "LEFTSHIFT"]), M(["C", "B"], ["Y"]), M(["LEFTSHIFT", "B"], ["D"])],
        [M(["C", "A"], ["X"], N, ["C"]), M(["LEFTSHIFT", "A"], ["Y"], N, ["LEFTSHIFT"]), M(["C", "LEFTSHIFT", "B"], ["D"])],
        [M(["C", "A"], ["X"], S(["E"]), ["C"]), M(["C", "B"], ["Y"], D), M(["C"], [])],
        [M(["B", "A"], ["X"], N, ["B"]), M(["B"], ["B"]), M(["B", "C"], ["Y"])],
    ]
    keys = ["A", "B", "C", "LEFTSHIFT", "LEFTCTRL", "X", "F"]
    return [F.job("absx-%d" % i, l, keys=keys, maxheld=3 if not thorough else 4) for i, l in enumerate(lays)]


def write_mc(wd, props, known, tags, check_drift=True, module="MapperImplMC", invariants=("NoViolation",)):
    with open(os.path.join(wd, "MC.tla"), "w") as f:
        f.write("---- MODULE MC ----\nEXTENDS %s\nMCProps == %s\nMCKnown == %s\nMCTags == %s\n====\n"
                % (module, tla_set(props), tla_set(known), tla_seq(tags)))
    with open(os.path.join(wd, "MC.cfg"), "w") as f:
        f.write("SPECIFICATION Spec\nCONSTANTS\n  Props <- MCProps\n  KnownIds <- MCKnown\n  CheckDrift = %s\n  Tags <- MCTags\n"
                % ("TRUE" if check_drift else "FALSE"))
        for inv in invariants:
            f.write("INVARIANT %s\n" % inv)
        f.write("VIEW View\nPOSTCONDITION Stats\nCHECK_DEADLOCK FALSE\n")


def shard_header(path):
    with open(path) as f:
        return json.loads(f.readline())["layouts"]


class Shard:
    """Random access to the lines of a shard file without loading it (shards of a state-exploding mutant are large)."""

    def __init__(self, path):
        self.f = open(path, "rb")
        self.offs = [0]
        for line in self.f:
            self.offs.append(self.offs[-1] + len(line))
        self.cache = {}

    def __getitem__(self, i):
        if i not in self.cache:
            self.f.seek(self.offs[i])
            self.cache[i] = json.loads(self.f.readline())
        return self.cache[i]


def walk_table(path, li, history):
    """Pure table lookup (no judgement): what the recorded implementation emitted along a history."""
    rows = Shard(path)
    hdr = rows[0]["layouts"][li - 1]
    keys = hdr["keys"]
    sid = hdr["first"]
    out = []
    for e in history:
        row = rows[sid]
        if e["t"] == "RA":
            t = row["ra"]
        else:
            ki = keys.index(e["k"])
            t = row["tr"][2 * ki + (0 if e["t"] == "P" else 1)]
        out.append({"in": e, "out": t.get("ev", []), "rep": t.get("rep", {}), "n": t["n"]})
        if t["n"] <= 0:
            break
        sid = t["n"]
    return out


def sample_walk(path, li, steps=8, salt=0):
    rows = Shard(path)
    hdr = rows[0]["layouts"][li - 1]
    if not hdr["first"]:
        return None
    rng = det_rng("walk", hdr["id"], salt)
    keys = hdr["keys"]
    sid = hdr["first"]
    phys = set()
    hist = []
    for _ in range(steps):
        k = rng.choice(keys)
        t = "R" if k in phys else "P"
        if t == "P" and len(phys) >= hdr["maxheld"]:
            k = rng.choice(sorted(phys))
            t = "R"
        tr = rows[sid]["tr"][2 * keys.index(k) + (0 if t == "P" else 1)]
        if tr["n"] <= 0:
            break
        hist.append({"in": t + ":" + k, "out": [x["t"] + ":" + x["k"] for x in tr["ev"]], "rep": tr["rep"]["kind"]})
        phys = (phys | {k}) if t == "P" else (phys - {k})
        sid = tr["n"]
    return {"layout_id": hdr["id"], "layout": hdr["layout"], "keys": keys, "maxheld": hdr["maxheld"], "history": hist}


def order_jobs(jobs):
    # heavy (loader-converted, large) jobs first so that round-robin sharding balances them
    return sorted(jobs, key=lambda j: (0 if "fancy" in j else 1, ))


def tabulate(exe, wd, jobs, shards, maxstates=40000, budget=None):
    """maxstates: cap per layout (the unchanged tree needs < 7 000 at 3 keys held over 7 keys, < 35 000 for the built-ins at 4); budget: cap on the
    whole run, after which every further layout is cut at 2 000 states. Both only matter for a change that makes the state space explode
    (a key that is never released again, a duplicate press acted on): what was recorded is still explored, the evidence reports the truncation."""
    jobs = order_jobs(jobs)
    if budget is None:
        budget = 1200000 + 500 * len(jobs)
    with open(os.path.join(wd, "jobs.json"), "w") as f:
        json.dump({"maxstates": maxstates, "budget": budget, "jobs": jobs}, f)
    t0 = time.time()
    out = run_tmv(exe, ["tabulate", os.path.join(wd, "jobs.json"), os.path.join(wd, "tab"), str(shards)])
    stats = json.loads(out.strip().splitlines()[-1])
    log("[tabulate] %d layouts, %d table states, %d real steps, %d panics, %d truncated, %.1fs"
        % (stats["layouts"], stats["table_states"], stats["impl_steps"], stats["panics"], stats["truncated_layouts"], time.time() - t0))
    files = sorted(os.path.join(wd, "tab", f) for f in os.listdir(os.path.join(wd, "tab")) if f.endswith(".ndjson"))
    # largest first, so that the process pool finishes evenly
    files.sort(key=lambda f: -os.path.getsize(f))
    return stats, files


def run_model(res, wd, shards, props, known, tags, prop, replay_path="", module="MapperImplMC", timeout=3000, mem="2g"):
    write_mc(wd, props, known, tags, module=module)
    runs = [TlcRun(wd, "MC.tla", "MC.cfg", env={"TABLE": s, "REPLAY": replay_path}, name="s%d" % i, timeout=timeout, mem=mem)
            for i, s in enumerate(shards) if os.path.getsize(s) > 0]
    t0 = time.time()
    run_tlc_many(runs)
    log("[tlc] %d processes, %.1fs" % (len(runs), time.time() - t0))
    tot_gen = tot_dist = 0
    counters = [0] * (len(tags) + 3)
    for r, shard in zip(runs, shards):
        g, d = r.counts()
        tot_gen += g
        tot_dist += d
        for line in r.printed("COUNTERS"):
            v = parse_tla_value(line)[1]
            for i, x in enumerate(v[:len(counters)]):
                counters[i] += x
        for line in r.printed("KNOWN"):
            v = parse_tla_value(line)
            for cid in v[2]:
                k = known_entry_for(cid)
                res.known_hit(k["id"] if k else cid, "%s in layout %s" % (cid, v[1]))
        for line in r.printed("DRIFT"):
            res.drift.append(line[:1500])
        for line in r.printed("AUX"):
            res.notes.append("auxiliary invariant of the mapper's internal state does not hold (not a listed property): " + line[:700])
        err = r.other_error()
        if err:
            res.tool_errors.append("%s: %s" % (r.name, err))
            continue
        if r.invariant_violated():
            if len(res.violations) >= 8:
                res.more_violations += 1
                continue
            states = r.cex_states()
            if not states:
                res.tool_errors.append("%s: invariant violated but no counterexample dump" % r.name)
                continue
            li = states[0]["li"]
            hist = [s["last"] for s in states[1:]]
            hdr = shard_header(shard)[li - 1]
            clauses = sorted(states[-1].get("viol", [])) or [r.invariant_violated()]
            job = next((j for j in json.load(open(os.path.join(wd, "jobs.json")))["jobs"] if j["id"] == hdr["id"]), None)
            obs = walk_table(shard, li, hist)
            res.violation(",".join(clauses), {"engine": "E1-mapper-table", "layout_id": hdr["id"], "job": job, "layout": hdr["layout"],
                                               "keys": hdr["keys"], "maxheld": hdr["maxheld"], "history": hist, "observed": obs,
                                               "how": "bin/check %s --replay <this file> re-tabulates this layout from the current tree and lets TLC follow exactly this history" % prop})
    return tot_gen, tot_dist, counters


def deep_walks(res, exe, wd, prop, tier):
    """Long random histories of the real mapper beyond the bounds of the tables (full alphabets of the built-ins, 5-6 keys held),
    validated by TLC as traces (spec/MapperTrace.tla)."""
    thorough = tier == "thorough"
    builtins = [json.loads(l) for l in run_tmv(exe, ["builtins"]).splitlines() if l.strip()]
    jobs = []
    sd = seed() if thorough else 0
    for b in builtins:
        for k in range(2 if not thorough else 8):
            jobs.append({"id": "walk-%s-%d" % (b["name"], k), "fancy": b["json"], "keys": "auto", "maxheld": 4 + k % 3, "steps": 1200 if not thorough else 6000, "seed": 1000 * sd + 17 * k + len(b["name"])})
    for i, v in enumerate(F.readme_layouts()):
        jobs.append({"id": "walk-readme-%d" % i, "fancy": v, "keys": "auto", "maxheld": 4, "steps": 400 if not thorough else 2000, "seed": 1000 * sd + i})
    pred = {"C03": F.no_abs, "C04": F.no_abs, "C07": F.has_norep, "C09": F.has_special, "C08": F.has_abs}.get(prop, F.anyl)
    small = F.small_family("walk", pred, 1, 40 if not thorough else 400, None, 0, 0, ones=False)
    for i, j in enumerate(small[:140 if not thorough else 1500]):
        jobs.append(dict(j, id="walk-" + j["id"], maxheld=5 + i % 2, steps=300 if not thorough else 1000, seed=1000 * sd + i))
    if prop in ("C03", "C04"):
        for i, j in enumerate(F.dist_family("dist", 1, 40)[::4]):
            jobs.append(dict(j, id="walk-" + j["id"], maxheld=5, steps=300 if not thorough else 1000, seed=1000 * sd + i))
    # the same kind of histories through the REAL loop and the REAL driver at the system-call level (tmv walk, via = loop): what is judged
    # there is what the loop WROTE to the virtual keyboard after each event it read, with evdev framing noise rotating over the walks
    direct = list(jobs)
    for i, j in enumerate(direct):
        if j["id"].startswith("walk-builtin") and not j["id"].endswith("-0"):
            continue
        lj = dict(j, id=j["id"] + "-loop", via="loop", noise=i % 4, steps=min(j["steps"], 600 if not thorough else 2000), seed=j["seed"] + 7)
        # every second of them with several events per wake-up (runs of up to four key events that have all arrived when the loop wakes up)
        # and a signal in front of a wake-up now and then; one in eight with one write answered EAGAIN (the loop may stop there, or retry)
        if (i // 4) % 2 == 1:
            lj["wake"] = 1 + i
            if (i // 8) % 4 == 1:
                lj["sendfault"] = 25 + 7 * (i % 9)
                # every second of these with eight such answers in a row (a consumer that stalls for a while: a writer that retries a few times and then
                # gives the batch up goes on with a device that missed it)
                lj["faultrun"] = 8 if (i // 32) % 2 == 1 else 1
        jobs.append(lj)
    nchunks = PROCS
    t0 = time.time()
    traces = []
    for i in range(nchunks):
        part = jobs[i::nchunks]
        if not part:
            continue
        jp = os.path.join(wd, "walkjobs_%d.json" % i)
        json.dump({"jobs": part}, open(jp, "w"))
        tp = os.path.join(wd, "walk_%d.ndjson" % i)
        run_tmv(exe, ["walk", jp], stdout_path=tp)
        traces.append(tp)
    props = [prop] + (["RA"] if prop in WITH_RA else [])
    with open(os.path.join(wd, "MT.tla"), "w") as f:
        f.write("---- MODULE MT ----\nEXTENDS MapperTrace\nMCProps == %s\nMCKnown == %s\n====\n" % (tla_set(props), tla_set(known_ids(prop))))
    with open(os.path.join(wd, "MT.cfg"), "w") as f:
        f.write("SPECIFICATION Spec\nCONSTANTS\n  Props <- MCProps\n  KnownIds <- MCKnown\nPOSTCONDITION Accepted\nCHECK_DEADLOCK FALSE\n")
    runs = [TlcRun(wd, "MT.tla", "MT.cfg", env={"TRACE": t}, name="mt%d" % i, deque=True, mem="2g", timeout=3000) for i, t in enumerate(traces)]
    run_tlc_many(runs)
    regs = [0] * 5
    nbad = 0
    for r, tp in zip(runs, traces):
        err = r.other_error()
        if err:
            res.tool_errors.append("%s: %s" % (r.name, err))
            continue
        acc = r.printed("ACCEPTED")
        if not acc:
            res.tool_errors.append("%s: no acceptance line" % r.name)
            continue
        v = parse_tla_value(acc[0])
        if v[1] != v[2]:
            res.tool_errors.append("%s: walk trace not consumed: %d of %d lines" % (r.name, v[1], v[2]))
        for i, x in enumerate(v[3]):
            regs[i] += x
        for line in r.printed("KNOWN"):
            pv = parse_tla_value(line)
            for cid in pv[2]:
                k = known_entry_for(cid)
                res.known_hit(k["id"] if k else cid, "%s in %s" % (cid, pv[1]))
        for line in r.printed("DRIFT"):
            res.drift.append(line[:900])
        for line in r.printed("BAD"):
            pv = parse_tla_value(line)
            wid, clauses, at = pv[1], sorted(pv[2]), pv[3]
            # the history up to the first offending step
            rows = read_ndjson(tp)
            start = max(i for i, row in enumerate(rows[:at]) if row.get("c") == "reset")
            hist = [row["e"] for row in rows[start + 1:at]]
            nbad += 1
            wjob = next((j for j in jobs if j["id"] == wid), {})
            if nbad <= 5:
                res.violation(",".join(clauses), {"engine": "E1-mapper-walk", "walk_id": wid, "layout": rows[start]["layout"], "keys": rows[start]["keys"], "history": hist,
                                                   "via": wjob.get("via", "direct"), "noise": wjob.get("noise", 0), "wake": wjob.get("wake", 0), "sendfault": wjob.get("sendfault", 0), "faultrun": wjob.get("faultrun", 1),
                                                   "observed": [{"in": row["e"], "out": row["ev"], "rep": row["rep"]} for row in rows[max(start + 1, at - 8):at]],
                                                   "how": "bin/check %s --replay <this file> lets the real mapper follow exactly this history again and TLC judge it" % prop})
            else:
                res.more_violations += 1
    log("[walks] %d random walks of the real mapper (%d of them through the real loop and driver), %d steps judged by TLC, %d with a mapping fired, %d drifts, %.1fs" % (regs[0], sum(1 for j in jobs if j.get("via") == "loop"), regs[1], regs[3], regs[2], time.time() - t0))
    return {"deep_walks": regs[0], "deep_walk_steps_validated": regs[1], "deep_walk_steps_with_a_mapping_fired": regs[3], "deep_walk_release_all_steps": regs[4], "deep_walk_drifts": regs[2],
            "deep_walks_through_the_real_loop_and_driver": sum(1 for j in jobs if j.get("via") == "loop"),
            "deep_walk_bounds": "random histories over every key the layout mentions (+2 foreign), 4-6 keys held, 7% ill-formed events, 1% release_all; about half of the walks are taken "
                                "through the real per-device loop and the real driver at the system-call level (half of them one event per wake-up, half with runs of up to four events "
                                "per wake-up and interrupted waits, a few with one write answered EAGAIN; a reset = the tablet switch going on and off, evdev framing / auto-repeat noise): there the judged output is what the loop wrote to the virtual keyboard"}


def replay_walk(prop, path):
    rp = json.load(open(path))
    try:
        exe = build_harness()
        wd = workdir("%s-replay" % prop)
        jp = os.path.join(wd, "walkjobs.json")
        json.dump({"jobs": [{"id": "replay", "layout": rp["layout"], "keys": rp["keys"], "maxheld": 9, "history": rp["history"], "via": rp.get("via", "direct"), "noise": rp.get("noise", 0), "wake": rp.get("wake", 0), "sendfault": rp.get("sendfault", 0), "faultrun": rp.get("faultrun", 1)}]}, open(jp, "w"))
        tp = os.path.join(wd, "walk.ndjson")
        run_tmv(exe, ["walk", jp], stdout_path=tp)
        props = [prop] + (["RA"] if prop in WITH_RA or any(e["t"] == "RA" for e in rp["history"]) else [])
        with open(os.path.join(wd, "MT.tla"), "w") as f:
            f.write("---- MODULE MT ----\nEXTENDS MapperTrace\nMCProps == %s\nMCKnown == %s\n====\n" % (tla_set(props), tla_set(known_ids(prop))))
        with open(os.path.join(wd, "MT.cfg"), "w") as f:
            f.write("SPECIFICATION Spec\nCONSTANTS\n  Props <- MCProps\n  KnownIds <- MCKnown\nPOSTCONDITION Accepted\nCHECK_DEADLOCK FALSE\n")
        r = TlcRun(wd, "MT.tla", "MT.cfg", env={"TRACE": tp}, name="mt", deque=True).run()
        err = r.other_error()
        if err:
            log("TOOL-ERROR: " + err)
            return 2
        for row in read_ndjson(tp)[-6:]:
            if row.get("c") == "step":
                log("  %s:%s -> %s" % (row["e"]["t"], row["e"]["k"], " ".join(x["t"] + ":" + x["k"] for x in row["ev"])))
        bad = r.printed("BAD")
        if bad:
            log("VIOLATION property=%s replay=%s clause=%s" % (prop, path, ",".join(sorted(parse_tla_value(bad[0])[2]))))
            return 1
        log("replay: no clause of %s is violated on this history with the current tree" % prop)
        return 0
    except ToolError as e:
        log("TOOL-ERROR: " + str(e))
        return 2


def design_level(res, wd, prop, tier):
    """MapperSpecMC: the same predicates on the specification itself, at bounds beyond the tabulated ones (4 keys held, 8 keys)."""
    keys8 = F.KEYS7 + ["E"]
    jobs = [F.job("spec-empty", [], keys=keys8, maxheld=4)]
    pred = {"C03": F.no_abs, "C04": F.no_abs, "C07": F.has_norep, "C09": F.has_special, "C08": F.has_abs}.get(prop, F.anyl)
    small = F.small_family("spec", pred, 1, 30, None, 0, 0, ones=False)
    for j in small[:120]:
        jobs.append(dict(j, keys=[k for k in j["keys"]] + ["E"], maxheld=4))
    nproc = PROCS
    runs = []
    tags = TAGS[prop]
    props = [prop, "RA", "AUX"]
    with open(os.path.join(wd, "MCS.tla"), "w") as f:
        f.write("---- MODULE MCS ----\nEXTENDS MapperSpecMC\nMCProps == %s\nMCKnown == %s\nMCTags == %s\n====\n" % (tla_set(props), tla_set(known_ids(prop)), tla_seq(tags)))
    with open(os.path.join(wd, "MCS.cfg"), "w") as f:
        f.write("SPECIFICATION Spec\nCONSTANTS\n  Props <- MCProps\n  KnownIds <- MCKnown\n  Tags <- MCTags\nINVARIANT NoViolation\nVIEW View\nPOSTCONDITION Stats\nCHECK_DEADLOCK FALSE\n")
    for i in range(nproc):
        part = jobs[i::nproc]
        if not part:
            continue
        lp = os.path.join(wd, "spec_layouts_%d.ndjson" % i)
        write_ndjson(lp, [{"layouts": part}])
        runs.append(TlcRun(wd, "MCS.tla", "MCS.cfg", env={"LAYOUTS": lp}, name="spec%d" % i, timeout=5400))
    t0 = time.time()
    run_tlc_many(runs)
    gen = dist = 0
    viols = []
    for r in runs:
        g, d = r.counts()
        gen, dist = gen + g, dist + d
        err = r.other_error()
        if err:
            res.notes.append("design-level run %s: %s" % (r.name, err[:300]))
        elif r.invariant_violated():
            st = r.cex_states()
            viols.append({"layout": st[0]["li"], "history": [x["last"] for x in st[1:]], "viol": st[-1].get("viol")})
    log("[tlc] MapperSpecMC (design level, 4 keys held, 8 keys): %d layouts, %d states, %d transitions, %.1fs" % (len(jobs), dist, gen, time.time() - t0))
    if viols:
        res.notes.append("DESIGN-LEVEL: Mapper.tla itself violates a predicate at the deeper bound (not judged on the implementation here): %s" % json.dumps(viols[:3])[:900])
    return {"design_level_layouts": len(jobs), "design_level_states": dist, "design_level_transitions": gen, "design_level_violations": len(viols),
            "design_level_bounds": "Mapper.tla as next-state relation, at most 4 keys held, 8-key alphabets"}


def check(prop, tier):
    res = Result(prop, tier, "model_checking")
    try:
        exe = build_harness()
        wd = workdir("%s-%s" % (prop, tier))
        jobs = family(prop, tier, exe, wd)
        stats, shards = tabulate(exe, wd, jobs, PROCS)
        tags = TAGS[prop]
        props = [prop] + (["RA"] if prop in WITH_RA else []) + (["AUX"] if prop == "C19" else [])
        gen, dist, counters = run_model(res, wd, shards, props, known_ids(prop), tags, prop,
                                        timeout=1500 if tier == "quick" else 7200)
        ante = dict(zip(tags, counters))
        conf, drifts = counters[len(tags)], counters[len(tags) + 1]
        hdrs = [h for s in shards for h in shard_header(s)]
        panicked = [h["id"] for h in hdrs if h["panic"] or h["panics"]]
        samples = []
        for i in (0, 7, 23):
            if i < len(hdrs):
                shard = shards[0]
            # one walk per a few shards
        for si in (0, len(shards) // 2, len(shards) - 1):
            w = sample_walk(shards[si], 1, salt=si)
            if w:
                samples.append(w)
        res.coverage = {
            "states": dist, "transitions": gen, "traces_validated_against_impl": conf,
            "samples": samples,
            "layouts": stats["layouts"], "layouts_small_generated": sum(1 for j in jobs if "layout" in j),
            "layouts_through_real_loader": sum(1 for j in jobs if "fancy" in j),
            "impl_table_states": stats["table_states"], "impl_steps_recorded": stats["impl_steps"],
            "truncated_layouts": stats["truncated_layouts"], "layouts_where_impl_panicked": panicked[:10],
            "conformance_mismatches": drifts, "auxiliary_invariant_failures": counters[len(tags) + 2] if prop == "C19" else None,
            "antecedent_transitions": ante,
            "exhaustive": stats["truncated_layouts"] == 0,
            "rule": "every reachable (mapper state, physically held set) of every layout of the family under every press and release "
                    "of every alphabet key, ill-formed ones included, with at most maxheld keys held; transitions = TLC 'states generated', "
                    "states = TLC 'distinct states' summed over shards; traces_validated_against_impl = transitions on which the recorded "
                    "step result was compared with Mapper!Step; antecedent_transitions = transitions on which each clause's antecedent held",
        }
        if not res.tool_errors:
            res.coverage.update(deep_walks(res, exe, wd, prop, tier))
        if prop in ("C01", "C09", "C02", "C19", "C03", "C04", "C05", "C07", "C08") and not res.tool_errors:
            # the same statement at the loop: C01 judged each time the real loop goes back to waiting (bursts, tablet and key events in one wake-up);
            # C09 by what the loop does with the repeat requests (several events per wake-up, the last one ignored; a second firing with the same chord);
            # C02 and C19 by what is down ON THE DEVICE (the fold of the writes that succeeded), with injected write failures;
            # C03, C04, C05, C07, C08 by what reaches the device event by event (bursts; an event left unread, a step's output not written: e2.DELIVERY)
            import e2
            res.coverage.update(e2.loop_level(res, exe, wd, tier, prop))
        if tier == "thorough" and prop in ("C01", "C02", "C19", "C03", "C04", "C05", "C07", "C08", "C09") and not res.violations and not res.tool_errors:
            res.coverage.update(design_level(res, wd, prop, tier))
        res.assumptions = ["bounded: at most maxheld (3, some 4) keys physically held, alphabets of 6-8 keys",
                           "the snapshot hook returns the mapper's real fields", "TLC and the CommunityModules JSON reader"]
        if drifts:
            res.notes.append("DRIFT: %d transitions differ from Mapper.tla (the model needs updating; the property verdict was computed on the implementation's own behaviour)" % drifts)
        if not res.violations and not res.tool_errors:
            missing = [t for t in tags if ante.get(t, 0) == 0]
            if missing:
                res.tool_errors.append("vacuous run: antecedents never exercised: %s" % missing)
    except ToolError as e:
        res.tool_errors.append(str(e))
    return res.finish()


def write_bisim_cfg(wd, rest=True):
    with open(os.path.join(wd, "MC.tla"), "w") as f:
        f.write("---- MODULE MC ----\nEXTENDS MapperBisim\n====\n")
    with open(os.path.join(wd, "MC.cfg"), "w") as f:
        f.write("SPECIFICATION Spec\nCONSTANTS\n  Rest = %s\nINVARIANT C06\nVIEW View\nPOSTCONDITION Stats\nCHECK_DEADLOCK FALSE\n" % ("TRUE" if rest else "FALSE"))


# C12 ("... the mapper resumes as from a fresh start") one level down: the product construction of C06 restricted to switches through release_all
C12_NAMES = {"C06-events-differ-from-fresh": "C12-mapper-answers-differ-from-fresh-after-release_all", "C06-repeat-differs-from-fresh": "C12-mapper-repeat-differs-from-fresh-after-release_all",
             "C06-held-after-releaseall": "C12-mapper-holds-keys-after-release_all"}


def bisim_pass(res, exe, wd, jobs, tier, prop, replay_file=None, rfile="", nshard_procs=None):
    """tabulate + MapperBisim over the shards; violations go into res (or, for a replay, the exit code is returned as ('replay', code))."""
    stats, shards = tabulate(exe, wd, jobs, 1 if replay_file else PROCS)
    write_bisim_cfg(wd, rest=(prop == "C06"))
    runs = [TlcRun(wd, "MC.tla", "MC.cfg", env={"TABLE": s, "REPLAY": rfile}, name="s%d" % i, timeout=1500 if tier == "quick" else 7200)
            for i, s in enumerate(shards)]
    t0 = time.time()
    run_tlc_many(runs)
    log("[tlc] product with a fresh mapper: %d processes, %.1fs" % (len(runs), time.time() - t0))
    gen = dist = 0
    counters = [0, 0, 0]
    for r, shard in zip(runs, shards):
        g, d = r.counts()
        gen += g
        dist += d
        for line in r.printed("COUNTERS"):
            for i, x in enumerate(parse_tla_value(line)[1]):
                counters[i] += x
        err = r.other_error()
        if err:
            res.tool_errors.append("%s: %s" % (r.name, err))
            continue
        if r.invariant_violated():
            states = r.cex_states()
            li = states[0]["li"]
            hist = [s["last"] for s in states[1:]]
            hdr = shard_header(shard)[li - 1]
            job = next((j for j in json.load(open(os.path.join(wd, "jobs.json")))["jobs"] if j["id"] == hdr["id"]), None)
            names = sorted(states[-1].get("bad", []))
            if prop != "C06":
                names = [C12_NAMES.get(n, n) for n in names]
            clause = ",".join(names) or prop
            if replay_file:
                for o in bisim_observed(shard, li, hist):
                    log("  " + json.dumps(o))
                log("VIOLATION property=%s replay=%s clause=%s" % (prop, replay_file, clause))
                return ("replay", 1)
            res.violation(clause, {"engine": "E1-mapper-bisimulation", "layout_id": hdr["id"], "job": job, "layout": hdr["layout"],
                                   "keys": hdr["keys"], "maxheld": hdr["maxheld"], "history": hist,
                                   "observed": bisim_observed(shard, li, hist)})
    return {"gen": gen, "dist": dist, "counters": counters, "stats": stats, "shards": shards}


def bisim_observed(shard, li, hist):
    """Pure table lookup: outputs of the long-running copy and of the fresh copy along a product history."""
    rows = read_ndjson(shard)
    hdr = rows[0]["layouts"][li - 1]
    keys = hdr["keys"]
    a, b = hdr["first"], 0
    out = []
    for e in hist:
        if e["t"] == "REST":
            b = hdr["first"]
            out.append({"in": "all keys released: a fresh mapper is started alongside"})
        elif e["t"] == "RA":
            ra = rows[a]["ra"]
            out.append({"in": "release_all", "out": ra["ev"]})
            a, b = ra["n"], hdr["first"]
        else:
            i = 2 * keys.index(e["k"]) + (0 if e["t"] == "P" else 1)
            x = rows[a]["tr"][i]
            o = {"in": e, "out": x["ev"], "rep": x["rep"]}
            a = x["n"]
            if b:
                y = rows[b]["tr"][i]
                o["fresh_out"], o["fresh_rep"] = y["ev"], y["rep"]
                b = y["n"]
            out.append(o)
        if a <= 0:
            break
    return out


def check_c06(tier, replay_file=None, prop="C06"):
    if replay_file and json.load(open(replay_file)).get("engine") in ("E2-loop-trace", "E2-loop-walk"):
        import e2
        return e2.check(prop, tier, replay_file)
    res = Result(prop, tier, "model_checking")
    try:
        exe = build_harness()
        wd = workdir("%s-%s" % (prop, "replay" if replay_file else tier))
        if replay_file:
            rp = json.load(open(replay_file))
            jobs = [rp.get("job") or {"id": rp["layout_id"], "layout": rp["layout"], "keys": rp["keys"], "maxheld": rp["maxheld"]}]
            rfile = os.path.join(wd, "replay.ndjson")
            write_ndjson(rfile, [{"li": 1, "history": rp["history"]}])
            out = bisim_pass(res, exe, wd, jobs, tier, prop, replay_file, rfile)
            if isinstance(out, tuple):
                return out[1]
            if res.tool_errors:
                log("TOOL-ERROR: " + res.tool_errors[0])
                return 2
            log("replay: %s holds on this history with the current tree" % prop)
            return 0
        thorough = tier == "thorough"
        sz = SIZES[tier]
        builtins = [json.loads(l) for l in run_tmv(exe, ["builtins"]).splitlines() if l.strip()]
        jobs = F.builtin_jobs(builtins, thorough) + F.readme_jobs() + [F.job("empty", [])] + \
            F.small_family("all", F.anyl, sz["per_pair"], sz["n_triples"], seed() if thorough else None, sz["extra_pairs"], sz["extra_triples"]) + \
            F.small_family("abs", F.has_abs, 1, 100 if not thorough else 800, None, 0, 0, ones=False) + abs_extra(thorough) + F.abs_cross(every=1 if thorough else 2) + F.modifier_table()
        if not thorough:
            jobs = [j for j in jobs if not j["id"].startswith("builtin-super-dvorak-1")]
        out = bisim_pass(res, exe, wd, jobs, tier, prop)
        gen, dist, counters, stats, shards = out["gen"], out["dist"], out["counters"], out["stats"], out["shards"]
        samples = [w for w in (sample_walk(shards[si], 1, salt=si) for si in (0, len(shards) - 1)) if w]
        res.coverage = {
            "states": dist, "transitions": gen, "traces_validated_against_impl": counters[0], "samples": samples,
            "layouts": stats["layouts"], "impl_table_states": stats["table_states"], "impl_steps_recorded": stats["impl_steps"],
            "switches_at_rest": counters[1], "switches_by_release_all": counters[2], "product_steps_compared": counters[0],
            "truncated_layouts": stats["truncated_layouts"], "exhaustive": stats["truncated_layouts"] == 0,
            "rule": "product of the tabulated real mapper with a fresh copy of itself: phase 1 = every reachable (state, held set); the switch is taken from "
                    "every rest state and, through the real release_all, from every reachable state; phase 2 = every continuation to a fixpoint, ill-formed events "
                    "included; traces_validated_against_impl = product steps on which events and repeat instruction of both copies were compared",
        }
        res.assumptions = ["bounded: at most maxheld keys held, alphabets of 6-8 keys", "the snapshot hook returns the mapper's real fields"]
        if not res.violations and not res.tool_errors and (counters[0] == 0 or counters[1] == 0 or counters[2] == 0):
            res.tool_errors.append("vacuous run: counters %s" % counters)
        if not res.tool_errors:
            # the same statement at the loop, where the release-all operation is used: nothing held after the switch, answers as a fresh mapper, no repeat survives
            import e2
            res.coverage.update(e2.loop_level(res, exe, wd, tier, prop))
    except ToolError as e:
        res.tool_errors.append(str(e))
    return res.finish()


def mapper_level_c12(res, exe, wd, tier):
    """C12's "resumes as from a fresh start" at the mapper: the product construction with switches through release_all only, on the layouts where
    state can be left behind (absorbing mappings, several on one modifier; Special and Disabled repeats)."""
    thorough = tier == "thorough"
    jobs = F.small_family("abs", F.has_abs, 1, 60 if not thorough else 600, None, 0, 0, ones=False) + abs_extra(thorough) + F.abs_cross(every=1 if thorough else 4) + \
        F.small_family("special", F.has_special, 1, 30 if not thorough else 300, None, 0, 0, ones=False)
    out = bisim_pass(res, exe, wd, jobs, tier, "C12")
    c = out["counters"]
    if not res.tool_errors and (c[0] == 0 or c[2] == 0):
        res.tool_errors.append("vacuous mapper-level run: counters %s" % c)
    return {"mapper_level_layouts": out["stats"]["layouts"], "mapper_level_switches_by_release_all": c[2], "mapper_level_product_steps_compared": c[0], "mapper_level_states": out["dist"]}


def replay(prop, path):
    rp = json.load(open(path))
    if rp.get("engine") == "E1-mapper-walk":
        return replay_walk(prop, path)
    if rp.get("engine") in ("E2-loop-trace", "E2-loop-walk"):
        import e2
        return e2.check(prop, "quick", path)
    try:
        exe = build_harness()
        wd = workdir("%s-replay" % prop)
        job = rp.get("job") or {"id": rp["layout_id"], "layout": rp["layout"], "keys": rp["keys"], "maxheld": rp["maxheld"]}
        stats, shards = tabulate(exe, wd, [job], 1)
        rfile = os.path.join(wd, "replay.ndjson")
        write_ndjson(rfile, [{"li": 1, "history": rp["history"]}])
        props = [prop] + (["RA"] if prop in WITH_RA or any(e["t"] == "RA" for e in rp["history"]) else [])
        write_mc(wd, props, known_ids(prop), TAGS.get(prop, []))
        r = TlcRun(wd, "MC.tla", "MC.cfg", env={"TABLE": shards[0], "REPLAY": rfile}, name="replay").run()
        err = r.other_error()
        if err:
            log("TOOL-ERROR: " + err)
            return 2
        obs = walk_table(shards[0], 1, rp["history"])
        for o in obs:
            log("  %s:%s -> %s" % (o["in"]["t"], o["in"]["k"], " ".join(x["t"] + ":" + x["k"] for x in o["out"])))
        if r.invariant_violated():
            states = r.cex_states()
            log("VIOLATION property=%s replay=%s clause=%s" % (prop, path, ",".join(sorted(states[-1].get("viol", [])))))
            return 1
        log("replay: no clause of %s is violated on this history with the current tree" % prop)
        return 0
    except ToolError as e:
        log("TOOL-ERROR: " + str(e))
        return 2
