# Layout families for the mapper properties (DESIGN.md section 6). Pure data generation: which
# layouts, alphabets and bounds are explored. The quick-tier selection is deterministic and does
# not depend on VERIF_SEED; the seed only drives the extra sample of the thorough tier.
import json, re, os, itertools
from common import det_rng, REPO

MODS = ["LEFTSHIFT", "RIGHTSHIFT", "LEFTMETA", "RIGHTMETA", "LEFTCTRL", "RIGHTCTRL", "LEFTALT", "RIGHTALT"]
N = {"kind": "Normal"}
D = {"kind": "Disabled"}


def S(keys, delay=3, interval=2):
    return {"kind": "Special", "keys": list(keys), "delay": delay, "interval": interval}


def M(f, t, r=N, a=()):
    return {"from": list(f), "to": list(t), "repeat": r, "absorbing": list(a)}


KEYS7 = ["A", "B", "C", "D", "LEFTSHIFT", "LEFTCTRL", "F"]   # F: foreign non-modifier
FROMS = [["A"], ["B"], ["LEFTSHIFT"], ["C", "A"], ["LEFTSHIFT", "A"], ["LEFTSHIFT", "B"], ["C", "B"],
         ["LEFTCTRL", "LEFTSHIFT", "A"], ["C"], ["A", "B"]]
TOS = [[], ["A"], ["B"], ["D"], ["LEFTSHIFT"], ["LEFTSHIFT", "A"], ["LEFTSHIFT", "D"], ["LEFTCTRL", "D"], ["LEFTCTRL"], ["C"], ["LEFTCTRL", "LEFTSHIFT"],
       ["D", "LEFTCTRL", "B"]]      # an ordinary key listed BEFORE a modifier (a hyper key first)
REPS = [N, D, S(["E"])]


def abs_variants(f):
    if len(f) == 1:
        return [[]]
    if len(f) == 2:
        return [[], [f[0]]]
    return [[], [f[0]], [f[1]], [f[0], f[1]]]


# unusual Special repeats the loader accepts: an empty chord, zero delay and interval (only without absorbing, to keep the family small)
ODD_REPS = [S([]), S(["E"], 0, 0)]


def singles():
    out = []
    for f in FROMS:
        for t in TOS:
            for r in REPS:
                for a in abs_variants(f):
                    out.append(M(f, t, r, a))
            for r in ODD_REPS:
                out.append(M(f, t, r, []))
    return out


SINGLES = singles()
BY_FROM = {}
for _m in SINGLES:
    BY_FROM.setdefault(tuple(_m["from"]), []).append(_m)


def has_abs(layout):
    return any(m["absorbing"] for m in layout)


def has_norep(layout):
    return any(m["repeat"]["kind"] != "Normal" for m in layout)


def has_special(layout):
    return any(m["repeat"]["kind"] == "Special" for m in layout)


def no_abs(layout):
    return not has_abs(layout)


def anyl(layout):
    return True


# rotation of the key names so that all eight standard modifiers and another "ordinary key used as
# a modifier" occur; structure is unchanged
ROTATIONS = [
    {},
    {"LEFTSHIFT": "RIGHTSHIFT", "LEFTCTRL": "RIGHTALT", "C": "CAPSLOCK"},
    {"LEFTSHIFT": "LEFTMETA", "LEFTCTRL": "LEFTALT"},
    {"LEFTSHIFT": "RIGHTCTRL", "LEFTCTRL": "RIGHTMETA", "C": "TAB", "F": "F5"},
]


def rename(x, rot):
    if isinstance(x, str):
        return rot.get(x, x)
    if isinstance(x, list):
        return [rename(y, rot) for y in x]
    if isinstance(x, dict):
        return {k: (rename(v, rot) if k in ("from", "to", "absorbing", "keys", "repeat", "layout") else v) for k, v in x.items()}
    return x


DIST_ROTATIONS = [{}, {"LEFTSHIFT": "RIGHTSHIFT", "C": "CAPSLOCK"}, {"A": "J", "B": "K", "F": "F5"}]


def job(jid, layout, keys=KEYS7, maxheld=3, rot=0, rots=None):
    rots = rots or ROTATIONS
    r = rots[rot % len(rots)]
    return {"id": jid, "layout": [rename(m, r) for m in layout], "keys": rename(list(keys), r), "maxheld": maxheld}


def pick(rng, pool, pred, n, tries=60):
    """n layouts (tuples of singles drawn from the pools) satisfying pred; deterministic in rng."""
    out, seen = [], set()
    for _ in range(tries * n):
        lay = [rng.choice(p) for p in pool]
        key = json.dumps(lay, sort_keys=True)
        if key in seen or not pred(lay):
            continue
        seen.add(key)
        out.append(lay)
        if len(out) == n:
            break
    return out


def small_family(tag, pred, per_pair, n_triples, extra_seed=None, extra_pairs=0, extra_triples=0, ones=True):
    """The small layouts of DESIGN section 6: all one-mapping layouts satisfying pred, two-mapping layouts
    stratified over every ordered pair of trigger shapes, three-mapping layouts stratified over a
    deterministic choice of trigger-shape triples."""
    jobs = []
    if ones:
        for i, m in enumerate(SINGLES):
            if pred([m]):
                jobs.append(job("%s-1-%d" % (tag, i), [m], rot=i))
    c = 0
    for fi, f1 in enumerate(FROMS):
        for fj, f2 in enumerate(FROMS):
            rng = det_rng(tag, "pair", fi, fj)
            for lay in pick(rng, [BY_FROM[tuple(f1)], BY_FROM[tuple(f2)]], pred, per_pair):
                jobs.append(job("%s-2-%d" % (tag, c), lay, rot=c))
                c += 1
    triples = [(a, b, cc) for a in range(len(FROMS)) for b in range(len(FROMS)) for cc in range(len(FROMS))]
    det_rng(tag, "triples").shuffle(triples)
    c = 0
    for (a, b, cc) in triples:
        if c >= n_triples:
            break
        rng = det_rng(tag, "triple", a, b, cc)
        for lay in pick(rng, [BY_FROM[tuple(FROMS[a])], BY_FROM[tuple(FROMS[b])], BY_FROM[tuple(FROMS[cc])]], pred, 1):
            jobs.append(job("%s-3-%d" % (tag, c), lay, rot=c))
            c += 1
    if extra_seed is not None:
        rng = det_rng(tag, "seeded", extra_seed)
        for c, lay in enumerate(pick(rng, [SINGLES, SINGLES], pred, extra_pairs)):
            jobs.append(job("%s-s2-%d-%d" % (tag, extra_seed, c), lay, rot=c))
        for c, lay in enumerate(pick(rng, [SINGLES, SINGLES, SINGLES], pred, extra_triples)):
            jobs.append(job("%s-s3-%d-%d" % (tag, extra_seed, c), lay, rot=c))
    return jobs


def modifier_table(pred=None):
    """Every one of the eight standard modifiers in every role, in a handful of fixed layout shapes: a slip in a table of modifier
    names (one name missing, two swapped) shows only for that one modifier."""
    jobs = []
    for mi, m in enumerate(MODS):
        other = MODS[(mi + 3) % 8]
        shapes = [
            [M(["A"], [m, "D"]), M(["B"], ["X"])],                                   # a chord's modifier must be lifted before the next mapped key
            [M(["A"], [m]), M(["B"], ["B"], D), M(["C"], [m, other])],               # modifier-remappings next to a no-repeat key
            [M([m, "A"], ["X"]), M(["B"], [m, "Y"], S(["E"]))],                       # the modifier as a trigger key and as an output
            [M([m, "A"], [m, "B"], N, [m]), M([m, "B"], ["Y"]), M(["C"], ["C"], D)],  # the modifier absorbed
            [M(["C"], [m, "A"], S([m, "E"])), M([other, m, "B"], ["D"])],
            [M(["C"], []), M(["C", "A"], [m]), M(["B"], ["X"])],                        # a layer key and a chord on it that is a modifier-remapping: the layer key released first
        ]
        for si, lay in enumerate(shapes):
            if pred is None or pred(lay):
                jobs.append({"id": "modtab-%s-%d" % (m, si), "layout": lay, "keys": ["A", "B", "C", m, other, "F"], "maxheld": 3})
    return jobs


def per_key(keys, pred=None, maxheld=2):
    """One small layout per key name the tool knows, with the key as an output of a no-repeat mapping, behind a modifier, as a trigger and as
    a repeat key (and, for the absorbing families, next to an absorbing chord): tables or bit tricks indexed by key code (which keys are
    modifiers, which are action keys) show only for particular codes among several hundred. Where another key of the tool has a code that
    differs by a multiple of 128 (codes run to 700: a byte or a 7-bit index wraps), that key is in the alphabet as well, as the modifier
    of a chord of its own: holding the one must not count as holding the other.
    keys: [{name, code}]"""
    jobs = []
    for kk in keys:
        K, code = kk["name"], kk["code"]
        if K in ("A", "B", "C", "D", "E", "LEFTSHIFT"):
            continue
        lay = [M(["A"], [K], D), M(["B"], ["LEFTSHIFT", K]), M(["C", K], ["D"], S([K]))]
        if pred is not None and not pred(lay):
            lay = [M(["LEFTSHIFT", "A"], [K], N, ["LEFTSHIFT"]), M(["LEFTSHIFT", K], ["D"])]
            if not pred(lay):
                continue
        alph = ["A", "B", "C", K, "LEFTSHIFT"]
        partner = next((p["name"] for p in keys if p["name"] != K and p["name"] not in alph and (p["code"] - code) % 128 == 0), None)
        if partner:
            lay = lay + [M([partner, "B"], ["E"])]
            alph = alph + [partner]
        jobs.append({"id": "key-%s" % K, "layout": lay, "keys": alph, "maxheld": maxheld})
        # the key as a trigger only (never an output): alone and as the last key of a chord
        lay2 = [M([K], ["D"]), M(["A", K], ["B"])]
        if pred is None or pred(lay2):
            jobs.append({"id": "key2-%s" % K, "layout": lay2, "keys": ["A", K, "C"], "maxheld": 2})
    return jobs


def small_n4(tag, pred, n):
    """n three-mapping layouts of the small family explored with FOUR keys held (some defects need a fourth key)"""
    base = small_family(tag, pred, 0, n, None, 0, 0, ones=False)
    return [dict(j, id=j["id"] + "-n4", maxheld=4) for j in base]


# ---- an absorbing mapping next to EVERY other mapping shape (trigger x output, normal repeat): what the flush of absorbed keys
# does to a neighbour that consumes, outputs or shares the absorbed keys
ABS_MAPPINGS = [M(["C", "A"], ["D"], N, ["C"]), M(["LEFTSHIFT", "A"], ["LEFTSHIFT", "D"], N, ["LEFTSHIFT"]),
                M(["LEFTCTRL", "LEFTSHIFT", "A"], ["D"], N, ["LEFTCTRL", "LEFTSHIFT"]), M(["LEFTCTRL", "LEFTSHIFT", "A"], ["LEFTSHIFT", "B"], D, ["LEFTSHIFT"]),
                # an absorbing chord whose output is its own final key (the key is then both physically held and a mapping's output)
                M(["C", "A"], ["A"], N, ["C"]), M(["LEFTSHIFT", "A"], ["A"], N, ["LEFTSHIFT"])]


def abs_cross(tag="absx", every=1):
    jobs = []
    c = 0
    for ai, am in enumerate(ABS_MAPPINGS):
        for f in FROMS:
            for t in TOS:
                if f == am["from"]:
                    continue
                c += 1
                if c % every:
                    continue
                jobs.append(job("%s-%d" % (tag, c), [M(f, t), am], rot=c))
    return jobs


# ---- layouts with distinguishable outputs (C03, C04): mapping i ends in its own key
DIST_KEYS = ["X", "Y", "Z"]
DIST_MODS = ["RIGHTALT", "RIGHTMETA", "RIGHTCTRL"]
DIST_FROMS = [["A"], ["B"], ["LEFTSHIFT"], ["LEFTSHIFT", "A"], ["LEFTCTRL", "A"], ["C", "A"], ["LEFTSHIFT", "LEFTCTRL", "A"],
              ["LEFTCTRL", "LEFTSHIFT", "A"], ["C", "LEFTSHIFT", "A"], ["LEFTSHIFT", "B"], ["A", "B"], ["C"],
              ["LEFTCTRL", "LEFTSHIFT", "C", "A"]]
DIST_PREFIX = [[], ["LEFTSHIFT"], ["LEFTCTRL"], ["LEFTSHIFT", "LEFTCTRL"], ["LEFTALT"]]
KEYS_DIST = ["A", "B", "C", "LEFTSHIFT", "LEFTCTRL", "X", "F"]


def dist_mapping(rng, f, i):
    last = DIST_KEYS[i] if rng.random() < 0.75 else DIST_MODS[i]
    pre = rng.choice(DIST_PREFIX)
    rep = rng.choice([N, N, D, S(["E"]), S(["LEFTCTRL", "E"])])
    return M(f, pre + [last], rep)


def dist_family(tag, per_pair, n_triples, extra_seed=None, extra=0):
    jobs = []
    c = 0
    for fi, f in enumerate(DIST_FROMS):
        for v in range(3):
            rng = det_rng(tag, "one", fi, v)
            jobs.append(job("%s-1-%d" % (tag, c), [dist_mapping(rng, f, 0)], keys=KEYS_DIST, maxheld=3 if len(f) < 4 else 4, rot=c, rots=DIST_ROTATIONS))
            c += 1
    c = 0
    for fi, f1 in enumerate(DIST_FROMS):
        for fj, f2 in enumerate(DIST_FROMS):
            for v in range(per_pair):
                rng = det_rng(tag, "pair", fi, fj, v)
                lay = [dist_mapping(rng, f1, 0), dist_mapping(rng, f2, 1)]
                mh = 4 if max(len(f1), len(f2)) >= 4 else 3
                jobs.append(job("%s-2-%d" % (tag, c), lay, keys=KEYS_DIST, maxheld=mh, rot=c, rots=DIST_ROTATIONS))
                c += 1
    triples = [(a, b, cc) for a in range(len(DIST_FROMS)) for b in range(len(DIST_FROMS)) for cc in range(len(DIST_FROMS))]
    det_rng(tag, "triples").shuffle(triples)
    # all list orders of mappings that share a final key are represented because the triples are ordered
    for c, (a, b, cc) in enumerate(triples[:n_triples]):
        rng = det_rng(tag, "triple", a, b, cc)
        lay = [dist_mapping(rng, DIST_FROMS[a], 0), dist_mapping(rng, DIST_FROMS[b], 1), dist_mapping(rng, DIST_FROMS[cc], 2)]
        mh = 4 if max(len(DIST_FROMS[a]), len(DIST_FROMS[b]), len(DIST_FROMS[cc])) >= 4 else 3
        jobs.append(job("%s-3-%d" % (tag, c), lay, keys=KEYS_DIST, maxheld=mh, rot=c, rots=DIST_ROTATIONS))
    # the same trigger listed twice with a different mapping on the same final key in between (an override
    # further down the file): the LAST listing must win whatever sits between the two
    c = 0
    for fi, f in enumerate(DIST_FROMS):
        for gi, g in enumerate(DIST_FROMS):
            if fi == gi or f[-1] != g[-1]:
                continue
            rng = det_rng(tag, "dup", fi, gi)
            lay = [dist_mapping(rng, f, 0), dist_mapping(rng, g, 1), dist_mapping(rng, f, 2)]
            mh = 4 if max(len(f), len(g)) >= 4 else 3
            jobs.append(job("%s-dup-%d" % (tag, c), lay, keys=KEYS_DIST, maxheld=mh, rot=c, rots=DIST_ROTATIONS))
            c += 1
    if extra_seed is not None:
        rng = det_rng(tag, "seeded", extra_seed)
        for c in range(extra):
            fs = [rng.choice(DIST_FROMS) for _ in range(rng.choice([2, 3, 3]))]
            lay = [dist_mapping(rng, f, i) for i, f in enumerate(fs)]
            mh = 4 if max(len(f) for f in fs) >= 4 else 3
            jobs.append(job("%s-s-%d-%d" % (tag, extra_seed, c), lay, keys=KEYS_DIST, maxheld=mh, rot=c, rots=DIST_ROTATIONS))
    return jobs


# ---- built-in layouts and README examples, through the real loader ("fancy" jobs)
BUILTIN_ALPHABETS = {
    "caps-for-movement": [["CAPSLOCK", "J", "N", "M", "LEFTCTRL", "LEFT", "X"],
                          ["CAPSLOCK", "COMMA", "N", "RIGHT", "LEFTCTRL", "LEFTSHIFT", "I"]],
    "caps-q-for-esc": [["CAPSLOCK", "Q", "ESC", "LEFTSHIFT", "A", "F5"]],
    "easy-symbols": [["CAPSLOCK", "RIGHTALT", "W", "A", "Z", "LEFTSHIFT", "F5"],
                     ["CAPSLOCK", "RIGHTALT", "E", "SEMICOLON", "RIGHTSHIFT", "EQUAL", "N"]],
    "easy-symbols-tab-for-movement": [["LEFTSHIFT", "CAPSLOCK", "RIGHTALT", "TAB", "N", "BACKSLASH", "W"],
                                      ["RIGHTSHIFT", "TAB", "CAPSLOCK", "Q", "J", "LEFTCTRL", "F5"]],
    "super-dvorak": [["LEFTSHIFT", "CAPSLOCK", "A", "J", "TAB", "GRAVE", "Q"],
                     ["LEFTSHIFT", "RIGHTSHIFT", "CAPSLOCK", "S", "K", "SPACE", "X"],
                     ["RIGHTSHIFT", "RIGHTALT", "GRAVE", "K", "COMMA", "LEFTCTRL", "1"],
                     ["LEFTSHIFT", "CAPSLOCK", "Q", "TAB", "M", "BACKSLASH", "LEFTMETA"],
                     ["CAPSLOCK", "RIGHTALT", "SEMICOLON", "W", "LEFTCTRL", "F20", "F5"],
                     ["LEFTSHIFT", "TAB", "K", "L", "LEFTCTRL", "LEFTALT", "SPACE"]],
}
BUILTIN_ALPHABETS_N4 = {
    "caps-for-movement": ["CAPSLOCK", "J", "N", "M", "LEFTCTRL", "LEFT", "X", "LEFTSHIFT"],
    "easy-symbols-tab-for-movement": ["LEFTSHIFT", "CAPSLOCK", "RIGHTALT", "TAB", "N", "BACKSLASH", "W", "LEFTCTRL"],
    "super-dvorak": ["LEFTSHIFT", "CAPSLOCK", "A", "J", "TAB", "GRAVE", "Q", "LEFTCTRL"],
}


def builtin_jobs(builtins, thorough):
    """builtins: list of {name, json} from `tmv builtins`."""
    jobs = []
    for b in builtins:
        alphs = BUILTIN_ALPHABETS.get(b["name"])
        if not alphs:
            # a built-in this file does not know: take the keys of its first mappings
            alphs = [first_keys(b["json"], 6) + ["F5"]]
        for i, a in enumerate(alphs if thorough else alphs[:2]):
            jobs.append({"id": "builtin-%s-%d" % (b["name"], i), "fancy": b["json"], "keys": a, "maxheld": 3})
        if b["name"] in BUILTIN_ALPHABETS_N4:      # four keys held: cheap enough for the quick tier too (36 000 table states for the three)
            jobs.append({"id": "builtin-%s-n4" % b["name"], "fancy": b["json"], "keys": BUILTIN_ALPHABETS_N4[b["name"]], "maxheld": 4})
    return jobs


def first_keys(fancy, n):
    out = []

    def walk(v):
        if isinstance(v, str):
            if not v.startswith("@") and re.fullmatch(r"[A-Z0-9_]+", v) and v not in out:
                out.append(v)
        elif isinstance(v, list):
            for x in v:
                walk(x)
        elif isinstance(v, dict):
            for k in ("from", "to"):
                if k in v:
                    walk(v[k])
    for m in fancy.get("mappings", []):
        walk(m)
        if len(out) >= n:
            break
    return out[:n]


def readme_layouts():
    """The ```json blocks of the README: whole layouts as they are, single mappings wrapped."""
    text = open(os.path.join(REPO, "README.md")).read()
    out = []
    for blk in re.findall(r"```json\n(.*?)```", text, re.S):
        try:
            v = json.loads(blk)
        except Exception:
            continue
        if isinstance(v, dict) and "mappings" not in v:
            v = {"mappings": [v]}
        out.append(v)
    return out


def readme_jobs():
    jobs = []
    for i, v in enumerate(readme_layouts()):
        ks = first_keys(v, 6)
        # row examples name no keys on the trigger side: add the row's first keys
        txt = json.dumps(v)
        if '"row"' in txt:
            ks = (ks + ["A", "S", "D", "F", "O", "U", "CAPSLOCK"])[:6]
        for extra in ["LEFTSHIFT", "F5"]:
            if extra not in ks:
                ks.append(extra)
        jobs.append({"id": "readme-%d" % i, "fancy": v, "keys": ks[:8], "maxheld": 3})
    return jobs
