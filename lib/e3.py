# Engine E3: generated cases for the functional parts. A TLA+ generator module enumerates the cases
# (TLC writes them as ndjson), the recorder feeds each case to the real code, and a TLA+ judge
# module evaluates the property predicate on every (case, recorded result) pair. Python only moves
# files around and formats what TLC printed.
import json, os, time
from common import *


def write_cfg(wd, name, consts=None, module_consts=None, extends=None):
    """cfg for a generator/judge module (trivial behaviour spec; the work is in ASSUMEs). Constants that
    are not plain cfg values are defined in a generated module MC_<name> extending the module."""
    mod = name
    if module_consts:
        mod = "MC_" + name
        with open(os.path.join(wd, mod + ".tla"), "w") as f:
            f.write("---- MODULE %s ----\nEXTENDS %s\n" % (mod, name))
            for k, v in module_consts.items():
                f.write("MC%s == %s\n" % (k, v))
            f.write("====\n")
    with open(os.path.join(wd, mod + ".cfg"), "w") as f:
        f.write("INIT Init\nNEXT Next\nCHECK_DEADLOCK FALSE\n")
        if consts or module_consts:
            f.write("CONSTANTS\n")
            for k, v in (consts or {}).items():
                f.write("  %s = %s\n" % (k, v))
            for k in (module_consts or {}):
                f.write("  %s <- MC%s\n" % (k, k))
    return mod


def generate(wd, module, consts=None, out="cases.ndjson", env=None, timeout=1800, mem="6g", module_consts=None):
    mod = write_cfg(wd, module, consts, module_consts)
    path = os.path.join(wd, out)
    e = {"OUT": path}
    e.update(env or {})
    r = TlcRun(wd, mod + ".tla", mod + ".cfg", env=e, name="gen_" + module + "_" + out.split(".")[0], timeout=timeout, mem=mem).run()
    err = r.other_error()
    if err:
        raise ToolError("case generator %s failed: %s" % (module, err))
    if not os.path.exists(path):
        raise ToolError("case generator %s wrote nothing" % module)
    return path, r


def generate_sharded(wd, module, consts, n, timeout=3600, out="cases.ndjson", mem="3g"):
    """A generator module with CONSTANTS Shard, NShards in parallel: every process builds the set of cases (cheap) and renders and writes its share
    (expensive); the shares are merged by id."""
    runs, paths = [], []
    for k in range(1, n + 1):
        cfg = "%s_%d.cfg" % (module, k)
        with open(os.path.join(wd, cfg), "w") as f:
            f.write("INIT Init\nNEXT Next\nCHECK_DEADLOCK FALSE\nCONSTANTS\n" + "".join("  %s = %s\n" % kv for kv in consts.items()) + "  Shard = %d\n  NShards = %d\n" % (k, n))
        path = os.path.join(wd, "%s_part_%d.ndjson" % (out.split(".")[0], k))
        paths.append(path)
        runs.append(TlcRun(wd, module + ".tla", cfg, env={"OUT": path}, name="gen_%s_%d" % (module, k), timeout=timeout, mem="8g" if n == 1 else mem))
    run_tlc_many(runs)
    for r in runs:
        err = r.other_error()
        if err:
            raise ToolError("case generator %s failed: %s" % (module, err))
    rows = []
    for p in paths:
        if not os.path.exists(p):
            raise ToolError("case generator %s wrote nothing (%s)" % (module, p))
        with open(p) as f:
            rows += [(json.loads(l)["id"], l if l.endswith("\n") else l + "\n") for l in f if l.strip()]
        os.remove(p)
    rows.sort(key=lambda t: t[0])
    outp = os.path.join(wd, out)
    with open(outp, "w") as f:
        f.writelines(l for _, l in rows)
    return outp, runs[0]


def generate_fancy(wd, size, timeout=3600, out="cases.ndjson"):
    # The Size-2 grammar grew to 258 000 programs with the families added after the seeded rounds; building that set alone takes TLC more than
    # half an hour on this machine, so the thorough tier uses the Size-1 grammar (14 000 programs) as well unless VERIF_FANCY_FULL=1 is set.
    if size == 2 and not os.environ.get("VERIF_FANCY_FULL"):
        size = 1
    return generate_sharded(wd, "FancyGen", {"Size": size}, 1 if size == 1 else PROCS, timeout, out)


def split_file(path, n, wd, stem):
    lines = [l for l in open(path) if l.strip()]
    n = max(1, min(n, len(lines)))
    out = []
    for i in range(n):
        p = os.path.join(wd, "%s_%d.ndjson" % (stem, i))
        with open(p, "w") as f:
            f.writelines(lines[i::n])
        out.append(p)
    return out, len(lines)


def judge(res, wd, module, result_files, known, extra_env=None, consts=None, timeout=3000, mem="2g", module_consts=None):
    """Runs the judge module over every results file; returns (judged, nontrivial, bad, knownhits) where bad and
    knownhits are lists of (case id, [clause ids])."""
    mc = {"KnownIds": tla_set(known)}
    mc.update(module_consts or {})
    mod = write_cfg(wd, module, consts, mc)
    runs = []
    for i, rf in enumerate(result_files):
        e = {"RESULTS": rf}
        e.update(extra_env or {})
        runs.append(TlcRun(wd, mod + ".tla", mod + ".cfg", env=e, name="judge_%s_%d" % (module, i), timeout=timeout, mem=mem))
    t0 = time.time()
    run_tlc_many(runs)
    log("[tlc] %s: %d processes, %.1fs" % (module, len(runs), time.time() - t0))
    judged = nontrivial = 0
    bad, kn, extra = [], [], []
    for r in runs:
        err = r.other_error()
        if err:
            res.tool_errors.append("%s: %s" % (r.name, err))
            continue
        for line in r.printed("JUDGED"):
            v = parse_tla_value(line)
            judged += v[1]
            nontrivial += v[2]
            extra.append(v[3:])
        for line in r.printed("BAD"):
            v = parse_tla_value(line)
            bad.append((v[1], sorted(v[2])))
        for line in r.printed("KNOWN"):
            v = parse_tla_value(line)
            kn.append((v[1], sorted(v[2])))
        for line in r.printed("DRIFT"):
            res.drift.append(line[:1200])
    return judged, nontrivial, bad, kn, extra


def report(res, bad, kn, case_by_id, result_by_id, engine, max_replays=10):
    for cid, clauses in kn:
        for c in clauses:
            k = known_entry_for(c)
            res.known_hit(k["id"] if k else c, "%s in case %s" % (c, cid))
    for cid, clauses in bad[:max_replays]:
        res.violation(",".join(clauses), {"engine": engine, "case": case_by_id.get(cid), "observed": result_by_id.get(cid)})
    if len(bad) > max_replays:
        res.notes.append("%d violating cases in total; replay files were written for the first %d" % (len(bad), max_replays))
        res.more_violations += len(bad) - max_replays


# ------------------------------------------------------------------ C17

def cp_str(cps):
    return "".join(chr(c) if 32 <= c < 127 else "\\u{%x}" % c for c in cps)


def c17(tier, replay_file=None):
    prop = "C17"
    res = Result(prop, tier, "exploration")
    try:
        exe = build_harness()
        wd = workdir("%s-%s" % (prop, "replay" if replay_file else tier))
        if replay_file and json.load(open(replay_file)).get("engine") == "E3-unit-file-e2e":
            rp = json.load(open(replay_file))
            c = dict(rp["case"], id=str(rp["case"]["id"]).replace("e2e-", ""))
            c17_e2e(res, exe, wd, [c], "quick")
            if res.tool_errors:
                log("TOOL-ERROR: " + res.tool_errors[0])
                return 2
            if res.violations:
                log("VIOLATION property=C17 replay=%s clause=%s" % (replay_file, res.violations[0][0]))
                return 1
            log("replay: C17 holds for the unit file the real binary writes for this pattern list")
            return 0
        if replay_file:
            rp = json.load(open(replay_file))
            cases = [rp["case"]]
            cpath = os.path.join(wd, "cases.ndjson")
            write_ndjson(cpath, cases)
        else:
            cpath, g = generate(wd, "SvcGen", {"Depth": 2 if tier == "quick" else 3})
            cases = read_ndjson(cpath)
            # random strings and lists over a wider alphabet (data only; the judge is SvcCheck)
            rng = det_rng("c17", 0 if tier == "quick" else seed())
            wide = [92, 39, 34, 32, 9, 10, 13, 37, 36, 123, 125, 59, 42, 63] + list(range(33, 127)) + [1, 7, 8, 27, 127, 133, 160, 233, 0x3b1, 0x4e2d, 0xfffd, 0x1f600, 0x10ffff]
            n0 = len(cases)
            for i in range(600 if tier == "quick" else 20000):
                pats = [[rng.choice(wide) for _ in range(rng.randint(1, 12))] for _ in range(rng.choice([1, 1, 2, 3]))]
                cases.append({"id": n0 + i + 1, "pats": pats})
            # escape-like sequences next to a blank (whatever rewrites the escaped text afterwards must respect escape boundaries)
            n0 = len(cases)
            k = 0
            for ch in "abefnrstvx01234567uU\\\"'%$;":
                for pats in ([" \\" + ch], ["\\" + ch + " x"], ["a \\" + ch + "b", "K"], ["\\\\" + ch + " "]):
                    k += 1
                    cases.append({"id": n0 + k, "pats": [[ord(c_) for c_ in p_] for p_ in pats]})
            # a dictionary in the fuzzers' sense: every word of every string literal of the file that builds the unit (whatever
            # marker, placeholder or keyword the code itself works with is a pattern a user may type), alone and embedded
            toks = source_tokens(os.path.join(REPO, "src", "udev_utils.rs"))
            n0 = len(cases)
            k = 0
            for t in toks:
                # (also behind a line break: whatever the code writes raw into the unit would start a new unit-file line there)
                for pats in ([t], ["KB" + t], [t + "x", "K"], ["K", "a" + t + "b"], ["K\n" + t], ["K\r" + t, "Z"]):
                    k += 1
                    cases.append({"id": n0 + k, "pats": [[ord(ch) for ch in p_] for p_ in pats]})
            write_ndjson(cpath, cases)
        rpath = os.path.join(wd, "results.ndjson")
        t0 = time.time()
        run_tmv(exe, ["svc", cpath], stdout_path=rpath)
        log("[record] build_service_text on %d pattern lists, %.1fs" % (len(cases), time.time() - t0))
        files, n = split_file(rpath, PROCS, wd, "res")
        judged, nontriv, bad, kn, _ = judge(res, wd, "SvcCheck", files, known_ids(prop))
        case_by_id = {c["id"]: c for c in cases}
        result_by_id = {r["id"]: {"line": cp_str(r["line"]), "line_codepoints": r["line"]} for r in read_ndjson(rpath)} if (bad or replay_file) else {}
        if replay_file:
            if res.tool_errors:
                log("TOOL-ERROR: " + res.tool_errors[0])
                return 2
            log("  ExecStart=" + result_by_id[cases[0]["id"]]["line"])
            if bad:
                log("VIOLATION property=C17 replay=%s clause=%s" % (replay_file, ",".join(bad[0][1])))
                return 1
            log("replay: C17 holds for this pattern list with the current tree")
            return 0
        scal = {}
        if not res.tool_errors:
            scal = c17_scalars(res, exe, wd, tier)
        e2e = {}
        if not res.tool_errors:
            e2e = c17_e2e(res, exe, wd, cases, tier)
        report(res, bad, kn, case_by_id, result_by_id, "E3-unit-file")
        if judged != len(cases) and not res.tool_errors:
            res.tool_errors.append("judged %d of %d cases" % (judged, len(cases)))
        res.coverage = {
            "evaluations": judged + scal.get("scalars_judged", 0), "distinct_nontrivial": nontriv,
            "rule": "pattern lists: every string of length <= %d over 28 syntax-relevant code points (all characters the ExecStart reader treats specially, "
                    "one representative of each class it does not), longer strings that start with an escape/specifier/variable introducer, two- and three-pattern "
                    "lists, random strings and lists over a wider alphabet, and every word of every string literal of src/udev_utils.rs alone and embedded; plus every Unicode scalar value except NUL as a one-character pattern (%s). "
                    "Non-trivial = contains a character the reader treats specially, a control or a non-ASCII character. Each case: real build_service_text, "
                    "then SystemdExec!ExecDecode must return exactly the intended argument vector." % (2 if tier == "quick" else 3, scal.get("how", "not run")),
            "samples": [{"patterns": [cp_str(p) for p in c["pats"]], "code_points": c["pats"]} for c in (cases[0], cases[len(cases) // 3], cases[-1])],
            "pattern_lists": len(cases), "exhaustive": False,
        }
        res.coverage.update(scal)
        res.coverage.update(e2e)
        if tier == "thorough" and not res.tool_errors:
            res.coverage.update(sd_oracle_check(res, wd, tier))
        res.assumptions = ["SystemdExec.tla is a faithful transcription of systemd 252's ExecStart reader (cross-checked against the real `systemd --test` in the thorough tier when available)",
                           "patterns are non-empty and contain no NUL"]
    except ToolError as e:
        res.tool_errors.append(str(e))
    return res.finish()


def source_tokens(path, cap=400):
    """words of the string literals of a source file (data for the pattern generator; no judgement)"""
    import re
    try:
        txt = open(path, encoding="utf-8", errors="replace").read()
    except OSError:
        return []
    toks = []
    for lit in re.findall(r'"((?:[^"\\]|\\.)*)"', txt, re.S):
        for t in re.split(r"\s+", lit):
            if 0 < len(t) <= 40 and "\x00" not in t and t not in toks:
                toks.append(t)
    return toks[:cap]


def c17_e2e(res, exe, wd, cases, tier):
    """The unit file as the real binary writes it: `totalmapper add_systemd_service --layout-file F --exclude=P ...` in a mount namespace with a scratch
    /etc (copies of the account files plus the `input` group and the `totalmapper` user, so that the steps before the unit is written succeed) and a
    tmpfs /dev with a uinput node; the ExecStart line of /etc/systemd/system/totalmapper@.service is judged by the same SvcCheck. Covers the command
    line plumbing (main.rs collects the --exclude values) and write_systemd_service, which the in-process cases bypass."""
    import subprocess, shutil
    ok, why = namespaces_available()
    if not ok:
        res.notes.append("end-to-end unit file skipped: cannot create a mount namespace here (%s)" % why)
        return {"e2e_units": 0}
    t0 = time.time()
    binp = build_real_binary()
    d = os.path.join(wd, "unit")
    shutil.rmtree(d, ignore_errors=True)
    etc = os.path.join(d, "etc")
    os.makedirs(os.path.join(etc, "udev"))
    os.makedirs(os.path.join(etc, "systemd", "system"))
    for f in ("passwd", "group", "shadow", "gshadow", "login.defs", "nsswitch.conf"):
        if os.path.exists("/etc/" + f):
            shutil.copy("/etc/" + f, os.path.join(etc, f))
    with open(os.path.join(etc, "group"), "a") as f:
        f.write("input:x:995:\n")
    if os.path.exists(os.path.join(etc, "gshadow")):
        with open(os.path.join(etc, "gshadow"), "a") as f:
            f.write("input:!::\n")
    with open(os.path.join(etc, "passwd"), "a") as f:
        f.write("totalmapper:x:994:995::/nonexistent:/usr/sbin/nologin\n")
    with open(os.path.join(etc, "shadow"), "a") as f:
        f.write("totalmapper:!:19000::::::\n")
    lay = os.path.join(d, "in.json")
    json.dump({"mappings": [{"from": "A", "to": "B"}]}, open(lay, "w"))
    unit = os.path.join(etc, "systemd", "system", "totalmapper@.service")
    want = 50 if tier == "quick" else 600
    # patterns an argv can carry (no NUL; UTF-8 encodable) - lists of every length, spread over the family
    usable = [c for c in cases if all(p and all(0 < cp < 0x110000 and not (0xD800 <= cp <= 0xDFFF) for cp in p) for p in c["pats"])]
    sel = usable[::max(1, len(usable) // want)][:want]
    rows = []
    for c in sel:
        if os.path.exists(unit):
            os.remove(unit)
        args = ["--exclude=" + "".join(chr(cp) for cp in p) for p in c["pats"]]
        script = ("mount --bind %s /etc && mount -t tmpfs tmpfs /dev && mknod /dev/uinput c 10 223 && mknod /dev/null c 1 3 && chmod 666 /dev/null && "
                  "exec \"$0\" add_systemd_service --layout-file %s \"$@\"" % (etc, lay))
        subprocess.run(["unshare", "-m", "sh", "-c", script, binp] + args, stdout=subprocess.PIPE, stderr=subprocess.PIPE, timeout=60)
        rows.append({"id": "e2e-%s" % c["id"], "pats": c["pats"], "text": open(unit, encoding="utf-8", errors="surrogateescape").read() if os.path.exists(unit) else ""})
    shutil.rmtree(etc, ignore_errors=True)
    cp_ = os.path.join(wd, "e2e_unit_cases.ndjson")
    write_ndjson(cp_, rows)
    rp = os.path.join(wd, "e2e_unit_results.ndjson")
    run_tmv(exe, ["svcfile", cp_], stdout_path=rp)
    nounit = sum(1 for r in rows if not r["text"])
    if nounit == len(rows) and rows:
        res.notes.append("end-to-end unit file: the real binary wrote no unit in the scratch namespace (%d cases); skipped" % len(rows))
        return {"e2e_units": 0}
    judged, nontriv, bad, kn, _ = judge(res, wd, "SvcCheck", [rp], known_ids("C17"))
    by = {r["id"]: {"id": r["id"], "pats": r["pats"]} for r in rows}
    report(res, bad, kn, by, {r["id"]: {"unit_text": r["text"][-600:]} for r in rows}, "E3-unit-file-e2e")
    log("[record] real add_systemd_service in a mount namespace wrote %d unit files (%d without a unit), judged by SvcCheck, %.1fs" % (len(rows), nounit, time.time() - t0))
    return {"e2e_units": judged, "e2e_units_how": "the real binary's add_systemd_service --exclude=... under unshare -m with a scratch /etc and a tmpfs /dev: the ExecStart line of the unit file it "
                                                  "wrote is decoded by SystemdExec.tla like the in-process cases (command-line plumbing and write_systemd_service included)"}


def c17_scalars(res, exe, wd, tier):
    """Every Unicode scalar as a one-character pattern. The recorder compresses identity encodings into ranges; TLC
    decodes every non-identity entry and representatives of every identity range concretely (quick), or every
    single scalar concretely (thorough), and checks that no identity range meets the reader's special set."""
    t0 = time.time()
    spath = os.path.join(wd, "scalars.json")
    run_tmv(exe, ["svcscalars"], stdout_path=spath)
    sc = json.load(open(spath))
    log("[record] build_service_text on %d scalars: %d identity ranges, %d non-identity, %.1fs" % (sc["scalars"], len(sc["identity"]), len(sc["other"]), time.time() - t0))
    rows = []
    for o in sc["other"]:
        rows.append({"id": o["c"], "pats": [[o["c"]]], "o": "ok" if o["line"] else "noline", "line": o["line"], "nlines": o["nlines"]})
    prefix, suffix = sc["prefix"], sc["suffix"]     # the recorder verified line = prefix + scalar + suffix for every identity scalar
    reps = 0
    for lo, hi in sc["identity"]:
        if tier == "thorough":
            cs = range(lo, hi + 1)
        else:
            cs = sorted({lo, hi, (lo + hi) // 2, min(hi, lo + 1), max(lo, hi - 1)})
        for c in cs:
            rows.append({"id": c, "pats": [[c]], "o": "ok", "line": prefix + [c] + suffix, "nlines": 9})
            reps += 1
    rp = os.path.join(wd, "scalar_results.ndjson")
    write_ndjson(rp, rows)
    files, n = split_file(rp, PROCS, wd, "scal")
    judged, nontriv, bad, kn, _ = judge(res, wd, "SvcCheck", files, known_ids("C17"))
    rbad = []
    # identity ranges must avoid the special set: judged by TLC as well
    rfile = os.path.join(wd, "ranges.ndjson")
    write_ndjson(rfile, [{"prefix": prefix, "suffix": suffix}] + [{"lo": lo, "hi": hi} for lo, hi in sc["identity"]])
    j2, _, bad2, kn2, _ = judge(res, wd, "SvcRanges", [rfile], known_ids("C17"))
    report(res, bad + bad2, kn + kn2, {r["id"]: {"id": r["id"], "pats": r["pats"]} for r in rows}, {r["id"]: {"line": cp_str(r["line"]), "line_codepoints": r["line"]} for r in rows}, "E3-unit-file-scalars")
    covered = sum(hi - lo + 1 for lo, hi in sc["identity"]) + len(sc["other"])
    return {"scalars_total": sc["scalars"], "scalars_covered_by_class_or_concretely": covered, "scalars_judged": judged,
            "identity_ranges": len(sc["identity"]), "non_identity_scalars": len(sc["other"]),
            "how": "all %d scalars through the real encoder; %d decoded concretely by TLC, identity ranges checked against the reader's special set" % (sc["scalars"], judged)}


# ------------------------------------------------------------------ C18

def tool_keys(exe, wd):
    """every key the tool knows: the numeric scan united with the kernel's KEY_* names the tool's name parser accepts"""
    cand = os.path.join(wd, "key_candidates.json")
    json.dump(sorted(kernel_codes().keys()), open(cand, "w"))
    return [json.loads(l) for l in run_tmv(exe, ["keys", cand]).splitlines() if l.strip()]


def kernel_codes(path="/usr/include/linux/input-event-codes.h"):
    """name -> code from the kernel header (KEY_* only, aliases resolved). The tool's names drop the KEY_ prefix."""
    import re
    defs = {}
    for line in open(path):
        m = re.match(r"#define\s+(KEY_\w+)\s+(\S+)", line)
        if m:
            defs[m.group(1)] = m.group(2)
    out = {}
    for k, v in defs.items():
        seen = 0
        while v in defs and seen < 5:
            v = defs[v]
            seen += 1
        try:
            out[k[4:]] = int(v, 0)
        except ValueError:
            pass
    return out


def c18(tier, replay_file=None):
    prop = "C18"
    if replay_file and json.load(open(replay_file)).get("engine") in ("E2-loop-trace", "E2-loop-walk"):
        import e2
        return e2.check(prop, tier, replay_file)
    res = Result(prop, tier, "other")
    try:
        exe = build_harness()
        wd = workdir("%s-%s" % (prop, "replay" if replay_file else tier))
        kpath = os.path.join(wd, "keys.ndjson")
        toolkeys = tool_keys(exe, wd)
        write_ndjson(kpath, toolkeys)
        kc = kernel_codes()
        kc.pop("RESERVED", None)
        kc.pop("MAX", None)
        kc.pop("CNT", None)
        # the tool spells the four kernel names that start with a digit with a leading K (KEY_102ND -> K102ND)
        for k in toolkeys:
            n = k["name"]
            if n not in kc and n[:1] == "K" and n[1:2].isdigit() and n[1:] in kc:
                kc[n] = kc.pop(n[1:])
        cpath_codes = os.path.join(wd, "codes.ndjson")
        write_ndjson(cpath_codes, [{"name": n, "code": c} for n, c in sorted(kc.items(), key=lambda x: x[1])])
        missing = [k["name"] for k in toolkeys if k["name"] not in kc]
        if missing:
            res.notes.append("key names of the tool that the kernel header does not define (not judged): %s" % missing[:10])
            toolkeys = [k for k in toolkeys if k["name"] in kc]
            write_ndjson(kpath, toolkeys)
        if replay_file:
            cases = [json.load(open(replay_file))["case"]]
            cpath = os.path.join(wd, "cases.ndjson")
            write_ndjson(cpath, cases)
        else:
            cpath, g = generate(wd, "WireGen", {"MaxLen": 3 if tier == "quick" else 4, "MaxItems": 2}, env={"KEYS": kpath})
            cases = read_ndjson(cpath)
            rng = det_rng("c18", 0 if tier == "quick" else seed())
            names = [k["name"] for k in toolkeys]
            n0 = len(cases)
            for i in range(200 if tier == "quick" else 3000):
                writes = []
                for _ in range(rng.randint(1, 4)):
                    if rng.random() < 0.6:
                        writes.append({"batch": [{"t": rng.choice("PR"), "k": rng.choice(names)} for _ in range(rng.choice([0, 1, 2, 5, 17, 40]))]})
                    else:
                        writes.append({"raw": [rng.choice([0, 1, 1, 1, 2, 3, 4, 17, 20]), rng.randint(0, 800), rng.choice([-1, 0, 1, 2, 3, 65536])]})
                cases.append({"id": n0 + i + 1, "writes": writes})
            # very large batches (a writer that splits its output into several writes must not lose anything)
            for n in ([170, 339, 340, 341, 512, 1000, 2000] if tier == "quick" else [169, 170, 171, 255, 256, 339, 340, 341, 509, 510, 511, 682, 1024, 1365, 2000, 2400]):
                cases.append({"id": len(cases) + 1, "writes": [{"batch": [{"t": "PR"[j % 2], "k": names[(j * 7 + n) % len(names)]} for j in range(n)]}]})
            write_ndjson(cpath, cases)
        rpath = os.path.join(wd, "results.ndjson")
        t0 = time.time()
        run_tmv(exe, ["wire", cpath], stdout_path=rpath)
        log("[record] send/next over a pipe for %d cases, %.1fs" % (len(cases), time.time() - t0))
        files, n = split_file(rpath, PROCS, wd, "res")
        judged, nontriv, bad, kn, _ = judge(res, wd, "WireCheck", files, known_ids(prop), extra_env={"CODES": cpath_codes, "KEYS": kpath})
        aux = [l for f in os.listdir(wd) if f.startswith("tlc_judge_WireCheck") for l in open(os.path.join(wd, f)) if l.startswith('<<"AUX"') or l.startswith('<< "AUX"')]
        if aux:
            res.notes.append("auxiliary behaviour (no listed property): the tablet-mode switch reader differs from Wire!TabletFilter in %d cases, e.g. %s" % (len(aux), aux[0][:300]))
        case_by_id = {c["id"]: c for c in cases}
        results = read_ndjson(rpath)
        result_by_id = {r["id"]: r for r in results} if (bad or replay_file) else {}
        if replay_file:
            if res.tool_errors:
                log("TOOL-ERROR: " + res.tool_errors[0])
                return 2
            log("  " + json.dumps(results[0])[:1500])
            if bad:
                log("VIOLATION property=C18 replay=%s clause=%s" % (replay_file, ",".join(bad[0][1])))
                return 1
            log("replay: C18 holds for this case with the current tree")
            return 0
        report(res, bad, kn, case_by_id, result_by_id, "E3-wire")
        if judged != len(cases) and not res.tool_errors:
            res.tool_errors.append("judged %d of %d cases" % (judged, len(cases)))
        nsingle = sum(1 for c in cases if len(c["writes"]) == 1 and "batch" in c["writes"][0] and len(c["writes"][0]["batch"]) == 1)
        res.coverage = {
            "explanation": "encode/decode fidelity, decided by a TLA+ reference (Wire!Encode, Wire!ReadFilter) evaluated by TLC on the bytes the real DevInputWriter::send "
                           "wrote to a pipe and on what the real DevInputReader::next decoded from it; record layout from libc::input_event, key codes from the kernel's "
                           "input-event-codes.h. Exhaustive over (key code, press/release) singly; bounded batches and foreign-record interleavings enumerated by TLC; random longer ones.",
            "evaluations": judged, "distinct_nontrivial": nontriv,
            "rule": "every key the tool knows x {press, release} as a one-event batch (%d cases); every batch of length <= %d over 5 events; every sequence of <= %d writes over "
                    "3 batches and 12 foreign records; random batches up to 40 events with foreign records. Non-trivial = anything but the empty batch." % (nsingle, 3 if tier == "quick" else 4, 2 if tier == "quick" else 3),
            "samples": [cases[0], cases[len(cases) // 2], cases[-1]],
            "single_event_cases": nsingle, "tool_keys": len(toolkeys), "record_layout": results[0]["layout"] if results else None,
            "exhaustive": False,
        }
        res.assumptions = ["libc::input_event describes the running kernel's struct input_event", "/usr/include/linux/input-event-codes.h is the kernel's code table",
                           "a pipe preserves the bytes written (the uinput device itself is not available in the sandbox)"]
        if not replay_file and not res.tool_errors:
            # the same statement one level up: batches on their way through the real RealDriver::send (large ones: nine keys released at once, bursts)
            import e2
            res.coverage.update(e2.loop_level(res, exe, wd, tier, prop))
    except ToolError as e:
        res.tool_errors.append(str(e))
    return res.finish()


# ------------------------------------------------------------------ C13

def strip_expect(cases_path, out_path):
    """The recorder only needs id/json/json2."""
    with open(cases_path) as f, open(out_path, "w") as g:
        for l in f:
            if l.strip():
                c = json.loads(l)
                g.write(json.dumps({"id": c["id"], "json": c["json"], "json2": c["json2"]}, separators=(",", ":")) + "\n")


def add_written_out(exe, wd, cpath, rpath):
    """For every program the real loader refused although the reference accepts it: what the real loader makes of the SAME layout written out by
    hand (the reference expansion as basic mappings, in the form the tool itself saves). Adds the field `wo` ("ok" | "err" | "panic" | "none") to
    every result row; no judgement here."""
    rows = [json.loads(l) for l in open(rpath) if l.strip()]
    refused = {r["id"] for r in rows if r.get("r1", {}).get("o") == "err"}
    wo = {}
    if refused:
        todo = []
        with open(cpath) as f:
            for l in f:
                if not l.strip():
                    continue
                c = json.loads(l)
                if c["id"] in refused and c["expect"]["ok"]:
                    ms = []
                    for m in c["expect"]["mappings"]:
                        rep = m["repeat"]
                        rj = rep["kind"] if rep["kind"] != "Special" else {"Special": {"keys": rep["keys"], "delay_ms": rep["delay"], "interval_ms": rep["interval"]}}
                        ms.append({"from": m["from"], "to": m["to"], "repeat": rj, "absorbing": m["absorbing"]})
                    todo.append({"id": c["id"], "kind": "value", "json": {"mappings": ms}})
        if todo:
            wp = os.path.join(wd, "written_out.ndjson")
            write_ndjson(wp, todo)
            for l in run_tmv(exe, ["load", wp]).splitlines():
                if l.strip():
                    r = json.loads(l)
                    wo[r["id"]] = r.get("r1", r)["o"]
    with open(rpath, "w") as f:
        for r in rows:
            r["wo"] = wo.get(r["id"], "none")
            f.write(json.dumps(r) + "\n")


def c13(tier, replay_file=None):
    prop = "C13"
    res = Result(prop, tier, "translation_validation")
    try:
        exe = build_harness()
        wd = workdir("%s-%s" % (prop, "replay" if replay_file else tier))
        if replay_file:
            rp = json.load(open(replay_file))
            cpath = os.path.join(wd, "cases.ndjson")
            write_ndjson(cpath, [rp["case"]])
        else:
            t0 = time.time()
            cpath, g = generate_fancy(wd, 1 if tier == "quick" else 2)
            log("[tlc] FancyGen: %s in %.1fs" % (g.printed("GENERATED"), time.time() - t0))
        ipath = os.path.join(wd, "inputs.ndjson")
        strip_expect(cpath, ipath)
        rpath = os.path.join(wd, "results.ndjson")
        t0 = time.time()
        run_tmv(exe, ["load", ipath], stdout_path=rpath)
        add_written_out(exe, wd, cpath, rpath)
        cfiles, n = split_file(cpath, PROCS, wd, "case")
        rfiles, n2 = split_file(rpath, PROCS, wd, "res")
        log("[record] real loader on %d programs x 2 spellings, %.1fs" % (n, time.time() - t0))
        if n != n2:
            raise ToolError("recorder returned %d results for %d cases" % (n2, n))
        # one judge process per (cases, results) pair
        mod = write_cfg(wd, "FancyCheck", None, {"KnownIds": tla_set(known_ids(prop) + known_ids("C14")), "Prop": tla_str(prop)})
        runs = [TlcRun(wd, mod + ".tla", mod + ".cfg", env={"CASES": c, "RESULTS": r}, name="judge_%d" % i, timeout=3000) for i, (c, r) in enumerate(zip(cfiles, rfiles))]
        t0 = time.time()
        run_tlc_many(runs)
        log("[tlc] FancyCheck: %d processes, %.1fs" % (len(runs), time.time() - t0))
        judged = nontriv = acc = rej = 0
        bad, kn = [], []
        for r in runs:
            err = r.other_error()
            if err:
                res.tool_errors.append("%s: %s" % (r.name, err))
                continue
            for line in r.printed("JUDGED"):
                v = parse_tla_value(line)
                judged, nontriv, acc, rej = judged + v[1], nontriv + v[2], acc + v[3], rej + v[4]
            bad += [(parse_tla_value(l)[1], sorted(parse_tla_value(l)[2])) for l in r.printed("BAD")]
            kn += [(parse_tla_value(l)[1], sorted(parse_tla_value(l)[2])) for l in r.printed("KNOWN")]
            res.drift += [l[:600] for l in r.printed("DRIFT")]
        need = {cid for cid, _ in bad[:10]} | ({1} if replay_file else set())
        case_by_id, result_by_id = {}, {}
        samples = []
        with open(cpath) as f:
            for i, l in enumerate(f):
                if not l.strip():
                    continue
                c = json.loads(l)
                if c["id"] in need:
                    case_by_id[c["id"]] = c
                if i in (0, n // 2, n - 1):
                    samples.append({"program": c["json"], "second_spelling": c["json2"], "expected_mappings": len(c["expect"]["mappings"]), "expected_accept": c["expect"]["ok"]})
        if need:
            for r in read_ndjson(rpath):
                if r["id"] in need:
                    result_by_id[r["id"]] = r
        if replay_file:
            if res.tool_errors:
                log("TOOL-ERROR: " + res.tool_errors[0])
                return 2
            c, r = json.load(open(replay_file))["case"], read_ndjson(rpath)[0]
            log("  program:  " + json.dumps(c["json"]))
            log("  expected: " + json.dumps(c["expect"]["mappings"])[:1500])
            log("  actual:   " + json.dumps(r["r1"])[:1500])
            if bad:
                log("VIOLATION property=C13 replay=%s clause=%s" % (replay_file, ",".join(bad[0][1])))
                return 1
            log("replay: C13 holds for this program with the current tree")
            return 0
        report(res, bad, kn, case_by_id, result_by_id, "E3-layout-language")
        if judged != n and not res.tool_errors:
            res.tool_errors.append("judged %d of %d cases" % (judged, n))
        res.coverage = {
            "programs": judged, "disagreements_checked": judged * 2, "samples": samples,
            "accepted_by_real_loader": acc, "rejected_by_real_loader": rej, "nontrivial_programs": nontriv,
            "accept_reject_disagreements_with_spec": len(res.drift),
            "rule": "programs of the bounded grammar of FancyGen.tla (alias blocks with several definitions, multi-key definitions and extra output keys; single, row and "
                    "repeat-only mappings with 0-3 alias/plain modifiers, aliases on the output, repeat and absorbing side; every printable character and space at "
                    "several positions of every row with/without RIGHTSHIFT; mapping + repeat-only pairs), each in two spellings, run through the real "
                    "parse_layout_from_json + convert and compared block-wise with Fancy!Expand by TLC. disagreements_checked = comparisons made (expansion and spelling per program).",
            "exhaustive": True,
        }
        res.assumptions = ["the US-QWERTY tables of Fancy.tla (independent transcription)", "bounded grammar; see FancyGen.tla"]
        if not res.violations and not res.tool_errors and nontriv < 100:
            res.tool_errors.append("vacuous run: only %d non-trivial programs" % nontriv)
    except ToolError as e:
        res.tool_errors.append(str(e))
    return res.finish()


# ------------------------------------------------------------------ C15

def c15(tier, replay_file=None):
    prop = "C15"
    res = Result(prop, tier, "translation_validation")
    try:
        exe = build_harness()
        wd = workdir("%s-%s" % (prop, "replay" if replay_file else tier))
        cpath = os.path.join(wd, "cases.ndjson")
        if replay_file:
            cases = [json.load(open(replay_file))["case"]]
        else:
            t0 = time.time()
            gpath, g = generate(wd, "SaveGen", {"Size": 1 if tier == "quick" else 2}, out="gen.ndjson", timeout=3600, mem="8g")
            if g.printed("SPEC-ROUNDTRIP-FAILS"):
                res.notes.append("design-level: Expand(SavedAsProgram(L)) # L for %d layouts, e.g. %s" % (len(g.printed("SPEC-ROUNDTRIP-FAILS")), g.printed("SPEC-ROUNDTRIP-FAILS")[0][:300]))
            cases = [{"id": "basic-%d" % c["id"], "layout": c["layout"]} for c in read_ndjson(gpath)]
            nbasic = len(cases)
            # one layout per key code the tool knows: every key name it can write must read back as the same key
            keys = tool_keys(exe, wd)
            for k in keys:
                cases.append({"id": "key-%s" % k["name"], "layout": [{"from": [k["name"]], "to": [k["name"]], "repeat": {"kind": "Special", "keys": [k["name"]], "delay": 1, "interval": 1}, "absorbing": []},
                                                                    {"from": ["A", k["name"]] if k["name"] != "A" else ["B", "A"], "to": [], "repeat": {"kind": "Normal"}, "absorbing": ["A" if k["name"] != "A" else "B"]},
                                                                    # ... and the key itself in the absorbing list (every position a key name is written in)
                                                                    {"from": [k["name"], "C"] if k["name"] != "C" else ["C", "D"], "to": ["E"], "repeat": {"kind": "Disabled"}, "absorbing": [k["name"]]}]})
            # large layouts: a saved file is the converted, pretty-printed form and can be a hundred times the size of its source (super-dvorak: 4 KB -> 70 KB);
            # one mapping per key and modifier (about 200 KB, 400 KB and 1.3 MB saved), and a source program whose expansion is that large
            mods = [[], ["LEFTSHIFT"], ["LEFTCTRL"], ["LEFTALT"], ["RIGHTALT"], ["LEFTMETA"], ["RIGHTSHIFT"], ["RIGHTCTRL"], ["LEFTCTRL", "LEFTSHIFT"], ["LEFTCTRL", "LEFTALT"]]
            knames = [k["name"] for k in keys if k["name"] not in ("LEFTSHIFT", "LEFTCTRL", "LEFTALT", "RIGHTALT", "LEFTMETA", "RIGHTSHIFT", "RIGHTCTRL")]
            for nm, nmods in (("big-3", 3), ("big-6", 6), ("big-10", 10)):
                cases.append({"id": nm, "layout": [{"from": m + [k], "to": m[:1] + [k], "repeat": {"kind": "Normal"} if i % 3 else {"kind": "Special", "keys": [k], "delay": 180, "interval": 30},
                                                    "absorbing": m[:1] if i % 2 else []} for i, k in enumerate(knames) for m in mods[:nmods]]})
            cases.append({"id": "big-prog", "fancy": {"mappings": [{"from": "F%d" % i, "to": "@layer"} for i in range(13, 25)] +
                                                       [{"from": ["@layer", {"row": r}], "to": ["LEFTCTRL", {"letters": letters}],
                                                         "repeat": {"Special": {"keys": ["LEFTALT", {"letters": letters}], "delay_ms": 200, "interval_ms": 40}}, "absorbing": "@layer"}
                                                        for r, letters in (("1", "1234567890-="), ("Q", "qwertyuiop[]"), ("A", "asdfghjkl;'"), ("Z", "zxcvbnm,./"))]}})
            # every converted layout of the C13 family, the built-ins and the README examples: what the converter really produces
            fpath, g2 = generate_fancy(wd, 1 if tier == "quick" else 2, out="fancy.ndjson")
            nf = 0
            with open(fpath) as f:
                for l in f:
                    if l.strip():
                        c = json.loads(l)
                        if c["expect"]["ok"]:
                            cases.append({"id": "prog-%d" % c["id"], "fancy": c["json"]})
                            nf += 1
            import families
            for b in [json.loads(l) for l in run_tmv(exe, ["builtins"]).splitlines() if l.strip()]:
                cases.append({"id": "builtin-" + b["name"], "fancy": b["json"]})
            for i, v in enumerate(families.readme_layouts()):
                cases.append({"id": "readme-%d" % i, "fancy": v})
            log("[gen] %d bounded basic layouts (TLC), %d key layouts, %d converted programs, in %.1fs" % (nbasic, len(keys), nf, time.time() - t0))
        write_ndjson(cpath, cases)
        rpath = os.path.join(wd, "results.ndjson")
        t0 = time.time()
        run_tmv(exe, ["roundtrip", cpath], stdout_path=rpath)
        log("[record] save + reload of %d layouts through the real code, %.1fs" % (len(cases), time.time() - t0))
        files, n = split_file(rpath, PROCS, wd, "res")
        judged, nontriv, bad, kn, _ = judge(res, wd, "SaveCheck", files, known_ids(prop))
        case_by_id = {c["id"]: c for c in cases}
        results = read_ndjson(rpath) if (bad or replay_file) else []
        result_by_id = {r["id"]: r for r in results}
        if replay_file:
            if res.tool_errors:
                log("TOOL-ERROR: " + res.tool_errors[0])
                return 2
            log("  saved:    " + json.dumps(results[0]["orig"])[:1200])
            log("  reloaded: " + json.dumps({k: results[0][k] for k in ("o", "msg", "mappings")})[:1200])
            if bad:
                log("VIOLATION property=C15 replay=%s clause=%s" % (replay_file, ",".join(bad[0][1])))
                return 1
            log("replay: C15 holds for this layout with the current tree")
            return 0
        report(res, bad, kn, case_by_id, result_by_id, "E3-save-reload")
        if judged != len(cases) and not res.tool_errors:
            res.tool_errors.append("judged %d of %d cases" % (judged, len(cases)))
        e2e = {}
        if not res.tool_errors:
            fancy = [c for c in cases if "fancy" in c]
            keyc = [{"id": c["id"], "fancy": {"mappings": [{"from": m["from"], "to": m["to"], "absorbing": m["absorbing"],
                                                           "repeat": ({"Special": {"keys": m["repeat"]["keys"], "delay_ms": m["repeat"]["delay"], "interval_ms": m["repeat"]["interval"]}}
                                                                      if m["repeat"]["kind"] == "Special" else m["repeat"]["kind"])} for m in c["layout"]]}}
                    for c in cases if str(c["id"]).startswith("key-")]
            want = 60 if tier == "quick" else 1500
            pick = fancy[::max(1, len(fancy) // want)][:want] + [c for c in fancy if not str(c["id"]).startswith("prog-")] + keyc[::max(1, len(keyc) // (want // 2))]
            e2e = c15_e2e(res, exe, wd, pick)
        res.coverage = {
            "programs": judged, "disagreements_checked": judged,
            "samples": [cases[0] if len(cases) < 3 else cases[2], cases[nbasic + 3], cases[-1]],
            "bounded_basic_layouts": nbasic, "key_codes": len(keys), "converted_programs": nf, "nontrivial_layouts": nontriv, **e2e,
            "rule": "every basic layout of SaveGen.tla's bounded family (0-%d mappings; triggers of 1-4 keys; outputs of 0-3 keys; Normal/Disabled/Special with chords of 0-2 keys and extreme "
                    "and negative numbers; absorbing lists), one two-mapping layout per key code the tool knows (the key as trigger, output, chord key and modifier), and every "
                    "layout the real converter produces for the accepted programs of the C13 family, the built-ins and the README examples; each is serialised as "
                    "write_layout_to_global_config does (serde_json::to_writer_pretty of the Layout) and read back with load_layout_from_file; TLC compares." % (2 if tier == "quick" else 3),
            "exhaustive": True,
        }
        res.assumptions = ["in-process cases reproduce the save path as serde_json::to_writer_pretty on the Layout value; the end-to-end cases run the real write_layout_to_global_config (needs `unshare -m`; skipped with a note otherwise)"]
        if not res.violations and not res.tool_errors and nontriv < 100:
            res.tool_errors.append("vacuous run: only %d non-trivial layouts" % nontriv)
    except ToolError as e:
        res.tool_errors.append(str(e))
    return res.finish()


# ------------------------------------------------------------------ C14

MUT_VALUES = [None, True, 0, -1, 1.5, 1e99, 2147483648, -2147483649, 4294967297, "", "A", "a", "@x", "@s", "NOSUCHKEY", "LEFTSHIFT", "1", "K1",
              [], ["A", "A"], ["LEFTSHIFT", "LEFTSHIFT", "A"], ["@s", "@s", "A"], [["A"]], {}, {"row": "A"}, {"row": "NOPE"}, {"row": 1}, {"letters": "ab"},
              {"letters": "é"}, {"letters": "abcdefghijklmnopqrstuvwxyz"}, {"letters": 5}, {"Special": {}}, {"Special": {"keys": "A", "delay_ms": "x", "interval_ms": 1}},
              {"Special": {"keys": ["LEFTSHIFT", "LEFTSHIFT"], "delay_ms": -5, "interval_ms": 0}}, "Disabled", "x" * 300,
              # one-character strings of many Unicode kinds (digits that are not ASCII digits, fractions, letters, marks, symbols, controls, astral)
              # long strings of two-byte characters at four alignments (whatever cuts a message or a name at a byte offset)
              "\u00e4\u00f6\u00fc\u00df" * 40, "x" + "\u00e4\u00f6\u00fc\u00df" * 40, {"letters": "xx" + "\u00e4\u00f6" * 70}, {"letters": "xxx" + "\u00e4\u00f6" * 70},
              "\u00b2", "\u00bd", "\u0663", "\u2167", "\uff15", "\u00e9", "\u00df", "\u0301", "\u221a", "\u0007", "\U0001f600", "0", "9", ":", "/", " "]


def json_paths(v, cur=()):
    out = [cur]
    if isinstance(v, dict):
        for k in v:
            out += json_paths(v[k], cur + (k,))
    elif isinstance(v, list):
        for i, x in enumerate(v):
            out += json_paths(x, cur + (i,))
    return out


def with_at(v, path, f):
    """deep copy of v with f applied to the container and key at path (f(container, key))"""
    import copy
    w = copy.deepcopy(v)
    if not path:
        return f(None, None, w)
    c = w
    for k in path[:-1]:
        c = c[k]
    f(c, path[-1], w)
    return w


def mutations(prog):
    """Structure-aware mutations of a valid program at every JSON path (data generation only)."""
    out = []
    for path in json_paths(prog):
        if not path:
            for val in MUT_VALUES[:12]:
                out.append(val)
            continue
        for val in MUT_VALUES:
            def rep(c, k, w, val=val):
                c[k] = val
            out.append(with_at(prog, path, rep))

        def dele(c, k, w):
            del c[k]
        out.append(with_at(prog, path, dele))

        def dup(c, k, w):
            if isinstance(c, list):
                c.insert(k, c[k])
            else:
                c[str(k) + "_extra"] = c[k]
        out.append(with_at(prog, path, dup))
    return out


def c14(tier, replay_file=None):
    import e1, families
    prop = "C14"
    res = Result(prop, tier, "exploration")
    try:
        exe = build_harness()
        wd = workdir("%s-%s" % (prop, "replay" if replay_file else tier))
        if replay_file and json.load(open(replay_file)).get("engine") in ("E2-loop-trace", "E2-loop-walk"):
            import e2
            return e2.check(prop, tier, replay_file)
        if replay_file:
            rp = json.load(open(replay_file))
            if rp.get("engine") == "E1-mapper-table":
                src = (rp.get("job") or {}).get("source_input_the_loader_accepted")
                if src:
                    # end to end: does the loader still accept the input, and if so what does the mapper do with the result
                    cpath = os.path.join(wd, "cases.ndjson")
                    write_ndjson(cpath, [src])
                    out = run_tmv(exe, ["loadtext" if src.get("kind") == "text" else "load", cpath])
                    r = json.loads(out.splitlines()[0])
                    r = r.get("r1", r)
                    log("  loader outcome: %s %s" % (r["o"], r["msg"][:300]))
                    if r["o"] == "panic":
                        log("VIOLATION property=C14 replay=%s clause=C14-loader-panic" % replay_file)
                        return 1
                    if r["o"] == "err":
                        log("replay: the loader rejects this input with a message; nothing reaches the mapper")
                        return 0
                    rp["job"]["layout"] = r["mappings"]
                    rp["layout"] = r["mappings"]
                    tmp = os.path.join(wd, "replay.json")
                    json.dump(rp, open(tmp, "w"))
                    return e1.replay(prop, tmp)
                return e1.replay(prop, replay_file)
            kind = rp["case"].get("kind", "value")
            cpath = os.path.join(wd, "cases.ndjson")
            write_ndjson(cpath, [rp["case"]])
            rpath = os.path.join(wd, "results.ndjson")
            run_tmv(exe, ["loadtext" if kind == "text" else "load", cpath], stdout_path=rpath)
            judged, nontriv, bad, kn, _ = judge(res, wd, "LoadCheck", [rpath], known_ids(prop))
            if res.tool_errors:
                log("TOOL-ERROR: " + res.tool_errors[0])
                return 2
            log("  outcome: " + open(rpath).read()[:800])
            if bad:
                log("VIOLATION property=C14 replay=%s clause=%s" % (replay_file, ",".join(bad[0][1])))
                return 1
            log("replay: the loader does not panic on this input with the current tree")
            return 0
        t0 = time.time()
        fpath, g = generate_fancy(wd, 1, out="fancy.ndjson")
        progs = []
        with open(fpath) as f:
            for l in f:
                if l.strip():
                    c = json.loads(l)
                    progs.append(c)
        rng = det_rng("c14", 0 if tier == "quick" else seed())
        # seeds for mutation: a deterministic spread over the generated family + built-ins + README
        nseed = 60 if tier == "quick" else 500
        step = max(1, len(progs) // nseed)
        seeds = [p["json"] if i % 2 == 0 else p["json2"] for i, p in enumerate(progs[::step][:nseed])]
        seeds += [json.loads(l)["json"] for l in run_tmv(exe, ["builtins"]).splitlines() if l.strip() and "super-dvorak" not in l]
        seeds += families.readme_layouts()
        vcases = []
        for p in progs:
            vcases.append({"id": len(vcases) + 1, "kind": "value", "json": p["json"], "json2": p["json2"]})
        nvalid = len(vcases)
        for s in seeds:
            for m in mutations(s):
                vcases.append({"id": len(vcases) + 1, "kind": "value", "json": m})
        cpath = os.path.join(wd, "vcases.ndjson")
        write_ndjson(cpath, vcases)
        # texts: every prefix of some rendered texts (truncated files), and a few non-JSON byte strings
        tcases = []
        for s in seeds[:20 if tier == "quick" else 120]:
            text = json.dumps(s, indent=1)
            for n in range(len(text)):
                tcases.append({"id": "t%d" % (len(tcases) + 1), "kind": "text", "text": text[:n]})
        for b in ([], [0], [255, 254], [123], [123, 125], list(b'{"mappings":'), list(b'{"mappings":[{"from":"A","to":"B"}]}\x00'), list(b'\xef\xbb\xbf{"mappings":[]}'),
                  list(b'{"mappings":[]}{"mappings":[]}'), list(b'[' * 200), list(b'{"mappings":[{"from":"\\ud800","to":"B"}]}')):
            tcases.append({"id": "t%d" % (len(tcases) + 1), "kind": "text", "bytes": b})
        # the same small file in the encodings an editor may save it in (byte order marks; two and four bytes per character), cut at EVERY byte:
        # whatever looks at the first bytes and decodes the rest must cope with a character that is cut in the middle
        small = '{"mappings":[{"from":"A","to":"\u00e9B"}]}'
        for enc in (b'\xff\xfe' + small.encode("utf-16-le"), b'\xfe\xff' + small.encode("utf-16-be"), b'\xef\xbb\xbf' + small.encode("utf-8"),
                    b'\xff\xfe\x00\x00' + small.encode("utf-32-le"), small.encode("utf-16-le"), small.encode("latin-1")):
            for n in range(len(enc) + 1):
                tcases.append({"id": "t%d" % (len(tcases) + 1), "kind": "text", "bytes": list(enc[:n])})
        # byte-level damage of valid files: one or two random insertions / deletions / replacements with characters JSON cares about
        alphabet = b'{}[]",:\\ \n\t0123456789.-+eEtrufalsn@AZaz_\x00\x7f\xc3\xa9\xff'
        for si, sd_ in enumerate(seeds[:25 if tier == "quick" else 150]):
            raw = json.dumps(sd_, separators=(",", ":")).encode()
            for _ in range(120 if tier == "quick" else 400):
                b = bytearray(raw)
                for _ in range(rng.choice([1, 1, 2])):
                    pos = rng.randrange(len(b) + 1)
                    op = rng.randrange(3)
                    if op == 0 and pos < len(b):
                        del b[pos]
                    elif op == 1:
                        b.insert(pos, rng.choice(alphabet))
                    elif pos < len(b):
                        b[pos] = rng.choice(alphabet)
                tcases.append({"id": "t%d" % (len(tcases) + 1), "kind": "text", "bytes": list(b)})
        tpath = os.path.join(wd, "tcases.ndjson")
        write_ndjson(tpath, tcases)
        log("[gen] %d valid programs, %d mutated values from %d seeds, %d texts, %.1fs" % (nvalid, len(vcases) - nvalid, len(seeds), len(tcases), time.time() - t0))
        t0 = time.time()
        vres, tres = os.path.join(wd, "vres.ndjson"), os.path.join(wd, "tres.ndjson")
        run_tmv(exe, ["load", cpath], stdout_path=vres)
        run_tmv(exe, ["loadtext", tpath], stdout_path=tres)
        log("[record] real loader on %d values and %d texts, %.1fs" % (len(vcases), len(tcases), time.time() - t0))
        # the judge only needs the outcomes; accepted mapping lists are collected for the mapper run
        accepted = {}
        slim = os.path.join(wd, "outcomes.ndjson")
        nres = 0
        with open(slim, "w") as g2:
            for path in (vres, tres):
                with open(path) as f:
                    for l in f:
                        if not l.strip():
                            continue
                        r = json.loads(l)
                        nres += 1
                        rs = [r[k] for k in ("r1", "r2") if k in r] or [r]
                        g2.write(json.dumps({"id": r["id"], "os": [x["o"] for x in rs]}) + "\n")
                        for x in rs:
                            if x["o"] == "ok":
                                accepted.setdefault(json.dumps(x["mappings"], sort_keys=True), r["id"])
        files, n = split_file(slim, PROCS, wd, "out")
        judged, nontriv, bad, kn, extra = judge(res, wd, "LoadCheck2", files, known_ids(prop))
        case_by_id = {c["id"]: c for c in vcases}
        case_by_id.update({c["id"]: c for c in tcases})
        report(res, bad, kn, case_by_id, {}, "E3-loader")
        if judged != nres and not res.tool_errors:
            res.tool_errors.append("judged %d of %d results" % (judged, nres))
        # second half: every distinct accepted layout is installed in the real mapper and driven exhaustively
        lays = sorted(accepted.items(), key=lambda kv: (len(kv[0]), kv[0]))
        maxl = 400 if tier == "quick" else 6000
        # prefer small layouts (cheap, and the mutated ones) but keep the spread
        pickd = lays[:maxl * 3 // 4] + lays[maxl * 3 // 4::max(1, (len(lays) - maxl * 3 // 4) // (maxl // 4) or 1)][:maxl // 4]
        jobs = []
        for txt, cid in pickd:
            lay = json.loads(txt)
            ks = []
            for m in lay:
                for k in m["from"] + m["to"]:
                    if k not in ks:
                        ks.append(k)
                if len(ks) >= 5:
                    break
            ks = ks[:5] + [k for k in ("F5",) if k not in ks[:5]]
            jobs.append({"id": "acc-%s" % cid, "layout": lay, "keys": ks, "maxheld": 3, "source_input_the_loader_accepted": case_by_id.get(cid)})
        # every key the tool has a name for, as the last trigger key of a chord, as an output and as a repeat key of a layout that goes
        # through the real loader into the real mapper (tables indexed or sized by key code show only for particular codes)
        nkeys = 0
        for kk in tool_keys(exe, wd):
            K = kk["name"]
            if K in ("CAPSLOCK", "A", "B", "C", "LEFTCTRL"):
                continue
            nkeys += 1
            src = {"mappings": [{"from": ["CAPSLOCK", K], "to": ["LEFTCTRL", "C"]}, {"from": "A", "to": K},
                                {"from": "B", "to": "B", "repeat": {"Special": {"keys": [K], "delay_ms": 100, "interval_ms": 30}}}]}
            jobs.append({"id": "key-%s" % K, "fancy": src, "keys": ["CAPSLOCK", K, "A", "B"], "maxheld": 3,
                         "source_input_the_loader_accepted": {"id": "key-%s" % K, "json": src, "kind": "value"}})
        stats, shards = e1.tabulate(exe, wd, jobs, PROCS)
        gen, dist, counters = e1.run_model(res, wd, shards, ["C14", "RA"], known_ids(prop), [], prop, timeout=1500 if tier == "quick" else 7200)
        res.coverage = {
            "evaluations": judged + stats["layouts"], "distinct_nontrivial": nontriv,
            "rule": "loader: every program of the C13 family in two spellings; structure-aware mutations (%d replacement values, among them one-character strings of many Unicode kinds, deletion, duplication/extra field) at every JSON path of %d seed "
                    "programs (family members, built-ins, README examples); every prefix of %d pretty-printed texts, a few non-JSON byte strings and random byte-level damage (insert/delete/replace) of compact texts, through load_layout_from_file. "
                    "Non-trivial = inputs the loader accepted. Mapper: a three-mapping layout per key name the tool knows (the key as last trigger key, as output and as repeat key) and %d distinct accepted layouts (of %d) installed in the real mapper and driven with every event sequence over "
                    "their first keys + a foreign key, <= 3 keys held (states/transitions below); a panic anywhere is recorded under catch_unwind and judged by TLC."
                    % (len(MUT_VALUES), len(seeds), 20 if tier == "quick" else 120, len(jobs), len(lays)),
            "samples": [vcases[nvalid + 5]["json"], vcases[len(vcases) // 2]["json"], tcases[len(tcases) // 2].get("text", "")[-200:]],
            "loader_inputs": judged, "loader_accepted": nontriv, "distinct_accepted_layouts": len(lays), "layouts_driven": stats["layouts"],
            "mapper_states": dist, "mapper_transitions": gen, "mapper_panics_recorded": stats["panics"], "exhaustive": False,
        }
        res.assumptions = ["arbitrary byte strings are not enumerated: bytes that are not JSON never reach repository code (serde_json rejects them)",
                           "accepted layouts are driven over a 6-key sub-alphabet with <= 3 keys held"]
        if not replay_file and not res.tool_errors:
            # ... and the loop that drives the mapper: accepted layouts with boundary repeat timings (zero, negative) under timer expiries
            import e2
            res.coverage.update(e2.loop_level(res, exe, wd, tier, prop))
    except ToolError as e:
        res.tool_errors.append(str(e))
    return res.finish()


# ------------------------------------------------------------------ C16

def c16(tier, replay_file=None):
    prop = "C16"
    res = Result(prop, tier, "exploration")
    try:
        exe = build_harness()
        wd = workdir("%s-%s" % (prop, "replay" if replay_file else tier))
        t0 = time.time()
        small = tier == "quick" or replay_file
        cpath, g = generate_sharded(wd, "DevGen", {"MaxLen": 2 if small else 3}, 1 if small else PROCS, timeout=3600)
        cases = read_ndjson(cpath)
        nkinds = parse_tla_value(g.printed("GENERATED")[0])[2]
        if replay_file:
            rp = json.load(open(replay_file))
            if rp.get("engine") == "E3-device-list-e2e":
                return c16_e2e(res, wd, [rp["case"]], replay_file)
            if rp.get("engine") == "E3-supervisor":
                out = supervisor_runs(res, exe, wd, "quick", replay_case=rp["case"])
                if res.tool_errors:
                    log("TOOL-ERROR: " + res.tool_errors[0])
                    return 2
                if out.get("bad"):
                    log("VIOLATION property=C16 replay=%s clause=%s" % (replay_file, ",".join(out["bad"][0][1])))
                    return 1
                log("replay: C16 holds on the --auto-all-keyboards path for this schedule with the current tree")
                return 0
            if rp.get("engine") == "E3-fleet":
                out = fleet_runs(res, exe, wd, "quick", replay_case=rp["case"])
                if res.tool_errors:
                    log("TOOL-ERROR: " + res.tool_errors[0])
                    return 2
                if out.get("bad"):
                    log("VIOLATION property=C16 replay=%s clause=%s" % (replay_file, ",".join(out["bad"][0][1])))
                    return 1
                log("replay: C16 holds where the devices are opened (--all-keyboards / --dev-file) for this schedule with the current tree")
                return 0
            cases = cases[:nkinds] + [dict(rp["case"], id=nkinds + 1)]
            write_ndjson(cpath, cases)
        log("[tlc] DevGen: %d cases over %d entry kinds, %.1fs" % (len(cases), nkinds, time.time() - t0))
        rpath = os.path.join(wd, "results.ndjson")
        # the placeholder "(R)" of DevList.tla becomes the real character U+00AE for the code under test, and the placeholder again in what it returns
        cpath_real = os.path.join(wd, "cases_real.ndjson")
        with open(cpath, encoding="utf-8") as f, open(cpath_real, "w", encoding="utf-8") as g:
            for l in f:
                g.write(l.replace("(R)", "\u00ae"))
        rpath_real = os.path.join(wd, "results_real.ndjson")
        run_tmv(exe, ["devlist", cpath_real], stdout_path=rpath_real)
        with open(rpath_real, encoding="utf-8") as f, open(rpath, "w", encoding="utf-8") as g:
            for l in f:
                g.write(l.replace("\u00ae", "(R)").replace("\\u00ae", "(R)"))
        lines = [l for l in open(rpath) if l.strip()]
        spath = os.path.join(wd, "singles.ndjson")
        with open(spath, "w") as f:
            f.writelines(lines[:nkinds])
        files, n = split_file(rpath, PROCS, wd, "res")
        judged, nontriv, bad, kn, _ = judge(res, wd, "DevCheck", files, known_ids(prop), extra_env={"SINGLES": spath})
        res.drift = sorted(set(res.drift))
        case_by_id = {c["id"]: c for c in cases}
        result_by_id = {json.loads(l)["id"]: json.loads(l) for l in lines} if (bad or replay_file) else {}
        if replay_file:
            if res.tool_errors:
                log("TOOL-ERROR: " + res.tool_errors[0])
                return 2
            log("  " + json.dumps(result_by_id[nkinds + 1])[:1500])
            if bad:
                log("VIOLATION property=C16 replay=%s clause=%s" % (replay_file, ",".join(bad[0][1])))
                return 1
            log("replay: C16 holds for this device list with the current tree")
            return 0
        report(res, bad, kn, case_by_id, result_by_id, "E3-device-list")
        if judged != len(cases) and not res.tool_errors:
            res.tool_errors.append("judged %d of %d cases" % (judged, len(cases)))
        e2e = c16_e2e(res, wd, select_e2e(cases, tier)) if not res.tool_errors else {}
        res.coverage = {
            "evaluations": judged + e2e.get("e2e_cases", 0), "distinct_nontrivial": nontriv,
            "rule": "every sequence of <= %d device entries over %d entry kinds (keyboards with/without LEDs, gaming mouse with a keyboard-like key map, 'Mouse'-named keyboard, cros_ec, "
                    "power button, video bus, lid switch, virtual keyboard/mouse, entries without name / sysfs / EV) x 8 exclude-pattern lists, through both real extractors and both real "
                    "exclusion functions; non-trivial = two or more entries or a non-empty exclude list. End to end: %s" % (2 if tier == "quick" else 3, nkinds, e2e.get("e2e_how", "not run")),
            "samples": [{"entries": c["entries"], "excludes": c["excludes"], "text_head": c["text"][:160]} for c in (cases[0], cases[len(cases) // 2], cases[-1])],
            "exhaustive": True,
        }
        res.coverage.update(e2e)
        if not res.tool_errors:
            res.coverage.update(supervisor_runs(res, exe, wd, tier))
        if not res.tool_errors:
            res.coverage.update(fleet_runs(res, exe, wd, tier))
        res.assumptions = ["the finite universe of device names and exclude patterns of DevList.tla, with glob matching given extensionally there",
                           "which entries are keyboard-like is the tool's own heuristic (compared with DevList!Keyboardish as DRIFT only)"]
    except ToolError as e:
        res.tool_errors.append(str(e))
    return res.finish()


# ------------------------------------------------------------------ C16 on the third discovery path, and the supervisor (growth beyond the listed properties)

SV_FULL = "402000000 3803078f800d001 feffffdfffefffff fffffffffffffffe"
SV_MOUSE = "1f0000 402000000 3803078f800d001 feffffdfffefffff fffffffffffffffe"
# (id, name, sysfs, EV, KEY, event number); k* come and go (selectable keyboards), the others are in the list all the time and must never be opened
SV_UNIVERSE = [("k0", "Kbd Zero", "/devices/pci0000:00/usb1/1-2/input/input7", "120013", SV_FULL, 0),
               ("k1", "Kbd One", "/devices/pci0000:00/usb1/1-3/input/input8", "120013", SV_FULL, 1),
               ("x", "Excluded Kbd", "/devices/pci0000:00/usb1/1-4/input/input9", "120013", SV_FULL, 2),
               ("m", "GXT 4155 Gaming Mouse", "/devices/pci0000:00/usb1/1-1/input/input12", "17", SV_MOUSE, 3),
               ("v", "totalmapper", "/devices/virtual/input/input20", "100013", SV_FULL, 4)]


def sv_entry(name, sysfs, ev, key):
    return ('I: Bus=0003 Vendor=0001 Product=0001 Version=0110\nN: Name="%s"\nP: Phys=usb-0000:00:14.0-1/input0\nS: Sysfs=%s\nU: Uniq=\n'
            'H: Handlers=sysrq kbd event0 leds \nB: PROP=0\nB: EV=%s\nB: KEY=%s\nB: MSC=10\n\n' % (name, sysfs, ev, key))


def sv_namespace(d, universe=None):
    """fabricated /sys/devices and device list for one recorder process; returns (devs, always)"""
    import shutil
    shutil.rmtree(d, ignore_errors=True)
    os.makedirs(os.path.join(d, "sys"))
    devs, always = [], ""
    for id_, name, sysfs, ev, key, n in (universe or SV_UNIVERSE):
        ed = os.path.join(d, "sys", sysfs.lstrip("/").replace("devices/", "", 1), "event%d" % n)
        os.makedirs(ed, exist_ok=True)
        open(os.path.join(ed, "uevent"), "w").write("MAJOR=13\nMINOR=%d\nDEVNAME=input/event%d\n" % (64 + n, n))
        if id_.startswith("k"):
            devs.append({"id": id_, "node": "/dev/input/event%d" % n, "entry": sv_entry(name, sysfs, ev, key)})
        else:
            always += sv_entry(name, sysfs, ev, key)
    open(os.path.join(d, "devices"), "w").write("")
    return devs, always


def sv_record(exe, d, cases):
    """runs `tmv supervise` on the cases inside a mount namespace of its own; returns the trace path"""
    import subprocess
    devs, always = sv_namespace(d)
    cp = os.path.join(d, "cases.ndjson")
    write_ndjson(cp, [dict(c, devs=devs, always=always, excludes=["Excl*"], devices_file=os.path.join(d, "devices")) for c in cases])
    tp = os.path.join(d, "trace.ndjson")
    setup = "mount --bind %s/devices /proc/bus/input/devices && mount --bind %s/sys /sys/devices && mount -t tmpfs tmpfs /dev && mkdir -p /dev/input && " % (d, d)
    with open(tp, "w") as out:
        p = subprocess.Popen(["unshare", "-m", "sh", "-c", setup + "exec %s supervise %s" % (exe, cp)], stdout=out, stderr=subprocess.PIPE)
    return p, tp


def supervisor_runs(res, exe, wd, tier, replay_case=None):
    """`remap --auto-all-keyboards`: the real supervisor (do_remapping_loop_auto_all_devices) with its real inotify watch, the real list_keyboards and
    flag_excluded on a fabricated /proc and /sys, the real open_device and the real worker threads, in a mount namespace; only the device nodes are
    scripted. TLC checks the design (spec/Supervisor.tla: invariants with the environment acting at every point of a round; three expectations it must
    REFUTE, recorded as observations), enumerates the serialised behaviours as schedules, and validates the recorded calls of every run against
    spec/SupervisorTrace.tla. C16-auto-... clauses are C16 on this discovery path; SV-... clauses are auxiliary (AUX lines), never a VIOLATION."""
    import subprocess, shutil
    ok, why = namespaces_available()
    if not ok:
        res.notes.append("supervisor runs skipped: cannot create a mount namespace here (%s)" % why)
        return {"supervisor_runs": 0}
    t0 = time.time()
    sd = os.path.join(wd, "sv")
    shutil.rmtree(sd, ignore_errors=True)
    os.makedirs(sd)
    with open(os.path.join(sd, "SVG.tla"), "w") as f:
        f.write('---- MODULE SVG ----\nEXTENDS Supervisor\nMCDyn == <<"k0", "k1">>\n====\n')
    consts = "CONSTANTS\n  Dyn <- MCDyn\n  MaxRounds = %d\n  MaxPerStep = %d\n  MaxFail = 1\n  Serial = %s\n  Emit = %s\n"
    invs = ["TypeOK", "OneWorkerPerPath", "OneRunningPerDevice", "RunningHoldsGrab", "StopsOnlyOnListFailure"]
    evid = {}
    if replay_case is None:
        # (1) the design, environment unrestricted
        with open(os.path.join(sd, "SVD.cfg"), "w") as f:
            f.write("SPECIFICATION Spec\n" + consts % (2 if tier == "quick" else 3, 2, "FALSE", "FALSE") + "".join("INVARIANT %s\n" % i for i in invs) + "CHECK_DEADLOCK FALSE\n")
        dsg = TlcRun(sd, "SVG.tla", "SVD.cfg", name="SVD", workers=4, mem="4g", timeout=1800).run()
        if dsg.invariant_violated() or dsg.other_error():
            res.tool_errors.append("Supervisor.tla (design): %s" % (dsg.invariant_violated() or dsg.other_error()))
            return {}
        # (2) what the design does NOT give: each must be refuted
        reach = {}
        for inv in ("NoDeadKeyboard", "ReopenNeverBusy", "WaitingMeansAllMapped"):
            with open(os.path.join(sd, "SVR_%s.cfg" % inv), "w") as f:
                f.write("SPECIFICATION Spec\n" + consts % (3, 2, "TRUE", "FALSE") + "INVARIANT %s\nCHECK_DEADLOCK FALSE\n" % inv)
            r = TlcRun(sd, "SVG.tla", "SVR_%s.cfg" % inv, name="SVR_" + inv, workers=1, mem="2g", timeout=600).run()
            reach[inv] = bool(r.invariant_violated())
        evid.update({"supervisor_design_states": dsg.counts()[1], "supervisor_design_observations_refuted_by_TLC": reach})
        # (3) schedules
        with open(os.path.join(sd, "SVS.cfg"), "w") as f:
            f.write("SPECIFICATION Spec\n" + consts % (3, 2, "TRUE", "TRUE") + "".join("INVARIANT %s\n" % i for i in invs + ["RoundIsComplete", "EmitSchedule"]) + "CHECK_DEADLOCK FALSE\n")
        g = TlcRun(sd, "SVG.tla", "SVS.cfg", name="SVS", workers=4, mem="4g", timeout=1800).run()
        if g.invariant_violated() or g.other_error():
            res.tool_errors.append("Supervisor.tla (schedules): %s" % (g.invariant_violated() or g.other_error()))
            return {}
        import e2
        scheds = e2.schedules_of(g)
        if not scheds:
            res.tool_errors.append("Supervisor.tla printed no schedule")
            return {}
        scheds.sort(key=lambda s: json.dumps(s, sort_keys=True))
        want = 320 if tier == "quick" else 6000
        stepn = max(1, len(scheds) // want)
        sel = scheds[::stepn][:want]
        # hand-written: what the enumeration bounds do not reach (four rounds; a failure after a re-plug; both keyboards failing to open first)
        L = lambda a, d="", x="": {"a": a, "d": d, "x": x}
        sel += [[[L("appear", "k0", "ok")], [L("appear", "k1", "bad")], [L("fixperm", "k1"), L("end", "k0", "err")], [L("touch")], [L("vanish", "k1"), L("end", "k1", "ok"), L("appear", "k1", "ok")]],
                [[L("appear", "k0", "bad"), L("appear", "k1", "bad")], [L("fixperm", "k1")], [L("fixperm", "k0")], [L("vanish", "k0"), L("end", "k0", "ok"), L("touch")], [L("appear", "k0", "ok")]],
                [[L("appear", "k1", "ok")], [L("appear", "k0", "ok")], [L("end", "k1", "err"), L("vanish", "k1"), L("appear", "k1", "ok")], [L("end", "k1", "err"), L("touch")], [L("touch")]]]
        cases = [{"id": "SV-%d" % i, "sched": s} for i, s in enumerate(sel)]
        evid.update({"supervisor_schedule_model_states": g.counts()[1], "supervisor_schedules_enumerated": len(scheds)})
    else:
        cases = [replay_case]
    nchunks = max(1, min(PROCS, len(cases) // 20 or 1))
    procs = []
    for i in range(nchunks):
        procs.append(sv_record(exe, os.path.join(sd, "ns%d" % i), cases[i::nchunks]))
    traces = []
    for p, tp in procs:
        try:
            _, err = p.communicate(timeout=900)
        except subprocess.TimeoutExpired:
            p.kill()
            res.tool_errors.append("tmv supervise did not finish within 900 s")
            return {}
        if p.returncode != 0:
            res.tool_errors.append("tmv supervise exited with %s: %s" % (p.returncode, (err or b"").decode("utf-8", "replace")[-400:]))
            return {}
        traces.append(tp)
    with open(os.path.join(sd, "SVT.tla"), "w") as f:
        f.write("---- MODULE SVT ----\nEXTENDS SupervisorTrace\n====\n")
    with open(os.path.join(sd, "SVT.cfg"), "w") as f:
        f.write("SPECIFICATION Spec\nPOSTCONDITION Accepted\nCHECK_DEADLOCK FALSE\n")
    truns = [TlcRun(sd, "SVT.tla", "SVT.cfg", env={"TRACE": t}, name="svt%d" % i, deque=True, mem="2g", timeout=1200) for i, t in enumerate(traces)]
    run_tlc_many(truns)
    regs = [0] * 8
    allbad = []
    for r in truns:
        err = r.other_error()
        acc = r.printed("SV-ACCEPTED")
        if err or not acc:
            res.tool_errors.append("%s: %s" % (r.name, err or "no acceptance line"))
            continue
        v = parse_tla_value(acc[0])
        if v[1] != v[2]:
            res.tool_errors.append("%s: supervisor trace not consumed: %d of %d lines" % (r.name, v[1], v[2]))
        regs = [a + b for a, b in zip(regs, v[3])]
        for line in r.printed("SV-BAD"):
            pv = parse_tla_value(line)
            allbad.append((pv[1], sorted(pv[2])))
    env = [(t, c) for t, cl in allbad for c in cl if c.startswith("ENV-")]
    if env:
        res.tool_errors.append("the recorder's supervisor environment misbehaved: %s" % env[:3])
    by_id = {c["id"]: c for c in cases}
    aux, c16bad = {}, []
    for t, cl in allbad:
        mine = [c for c in cl if c.startswith("C16-")]
        if mine:
            c16bad.append((t, mine))
        for c in cl:
            if c.startswith("SV-"):
                aux.setdefault(c, []).append(t)
    for c, ts in sorted(aux.items()):
        log("AUX: supervisor (not a listed property): %s in %d runs, e.g. %s" % (c, len(ts), ts[0]))
    log("[supervisor] %d runs of the real do_remapping_loop_auto_all_devices in mount namespaces: %d rounds, %d open attempts, %d workers started, %d ended, %d re-opens answered EBUSY "
        "(the dead worker's descriptor still holds the grab), %d runs returned on the list failure; C16 clauses failing in %d runs, auxiliary clauses in %d; %.1fs"
        % (regs[0], regs[1], regs[2], regs[3], regs[4], regs[5], regs[7], len(c16bad), sum(len(t) for t in aux.values()), time.time() - t0))
    if replay_case is not None:
        return {"bad": c16bad}
    # (what must have been exercised whatever the supervisor under test does with it: devices were opened and workers were told to end)
    if not res.tool_errors and (regs[0] == 0 or regs[2] == 0 or regs[3] == 0 or regs[4] == 0):
        res.tool_errors.append("vacuous supervisor runs: registers %s" % regs)
    for t, cl in c16bad[:5]:
        res.violation(",".join(cl), {"engine": "E3-supervisor", "case": by_id.get(t)})
    if len(c16bad) > 5:
        res.more_violations += len(c16bad) - 5
    evid.update({"supervisor_runs": regs[0], "supervisor_rounds": regs[1], "supervisor_open_attempts": regs[2], "supervisor_workers_started": regs[3],
                 "supervisor_workers_ended": regs[4], "supervisor_reopens_answered_EBUSY": regs[5], "supervisor_auxiliary_clauses_failing": {c: len(t) for c, t in aux.items()},
                 "supervisor_how": "the real do_remapping_loop_auto_all_devices under unshare -m (real inotify on a tmpfs /dev/input, real list_keyboards / flag_excluded on a fabricated "
                                   "device list and /sys/devices, real open_device and worker threads; device nodes scripted: open, EVIOCGKEY, EVIOCGRAB held until close, uinput set-up, "
                                   "ENODEV / EIO to end a worker), schedules enumerated by TLC from spec/Supervisor.tla, every recorded call validated against spec/SupervisorTrace.tla",
                 "supervisor_note": "auxiliary except the C16-auto clauses: the supervisor is not one of the listed properties. Supervisor.tla documents what it gives (one worker per path, a "
                                    "worker's failure or a failing open never stops the others or the round) and what it does not (observations, each refuted by TLC and seen on the real code): a "
                                    "worker that fails on a device that stays plugged in leaves the device grabbed by a descriptor nobody closes, so every re-open fails with EBUSY and the "
                                    "keyboard is dead until the process exits; unplugging is not watched (no IN_DELETE), so a finished worker is only reaped, and its device re-opened, at the "
                                    "next CREATE/ATTRIB event in /dev/input"})
    return evid


# ------------------------------------------------------------------ the static fleet: --all-keyboards and --dev-file down to the opens and the joins

FL_UNIVERSE = SV_UNIVERSE + [("k2", "Kbd Two", "/devices/pci0000:00/usb1/1-5/input/input10", "120013", SV_FULL, 5)]


def fl_record(exe, d, cases):
    """runs `tmv fleet` on the cases inside a mount namespace of its own; returns (process, trace path)"""
    import subprocess
    devs, always = sv_namespace(d, FL_UNIVERSE)
    cp = os.path.join(d, "cases.ndjson")
    write_ndjson(cp, [dict(c, devs=devs, always=always, excludes=["Excl*"], devices_file=os.path.join(d, "devices"),
                           always_nodes=["/dev/input/event%d" % u[5] for u in FL_UNIVERSE if not u[0].startswith("k")]) for c in cases])
    tp = os.path.join(d, "trace.ndjson")
    setup = "mount --bind %s/devices /proc/bus/input/devices && mount --bind %s/sys /sys/devices && mount -t tmpfs tmpfs /dev && mkdir -p /dev/input && " % (d, d)
    with open(tp, "w") as out:
        p = subprocess.Popen(["unshare", "-m", "sh", "-c", setup + "exec %s fleet %s" % (exe, cp)], stdout=out, stderr=subprocess.PIPE)
    return p, tp


def fleet_runs(res, exe, wd, tier, replay_case=None):
    """`remap --all-keyboards` (do_remapping_loop_all_devices) and `remap --dev-file ... --only-if-keyboard` (do_remapping_loop_multiple_devices ->
    filter_devices_verbose), both down to do_remapping_loop_these_devices: the real functions in a mount namespace with the device nodes scripted
    (`tmv fleet`). TLC checks the design (spec/Fleet.tla: invariants, the liveness property Returns, three expectations it must REFUTE), enumerates
    its finished behaviours as schedules (which keyboards are listed, which cannot be opened, in which order the workers end and how), and validates
    the recorded calls of every run against spec/FleetTrace.tla. C16-fleet-... clauses are C16 where the devices are actually opened; FL-... clauses are
    auxiliary (AUX lines), never a VIOLATION."""
    import subprocess, shutil
    ok, why = namespaces_available()
    if not ok:
        res.notes.append("fleet runs skipped: cannot create a mount namespace here (%s)" % why)
        return {"fleet_runs": 0}
    t0 = time.time()
    fd = os.path.join(wd, "fl")
    shutil.rmtree(fd, ignore_errors=True)
    os.makedirs(fd)
    evid = {}
    if replay_case is None:
        with open(os.path.join(fd, "FLG.tla"), "w") as f:
            f.write('---- MODULE FLG ----\nEXTENDS Fleet\nMCDevs == <<"k0", "k1", "k2">>\n====\n')
        invs = ["TypeOK", "OpensInListOrder", "AllOrNothing", "OnlyTheSelected", "AllSelectedOpened", "OkMeansAllOk", "FirstErrorInListOrder", "OpenErrorIsTheFirstBad"]
        with open(os.path.join(fd, "FLD.cfg"), "w") as f:
            f.write("SPECIFICATION Spec\nCONSTANTS\n  Devs <- MCDevs\n  Emit = TRUE\n" + "".join("INVARIANT %s\n" % i for i in invs + ["EmitSchedule"]) + "PROPERTY Returns\nCHECK_DEADLOCK FALSE\n")
        g = TlcRun(fd, "FLG.tla", "FLD.cfg", name="FLD", workers=2, mem="2g", timeout=900).run()
        if g.invariant_violated() or g.other_error():
            res.tool_errors.append("Fleet.tla (design): %s" % (g.invariant_violated() or g.other_error()))
            return {}
        reach = {}
        for inv in ("FailureReportedAtOnce", "ReturnMeansAllEnded", "FailedStartLeavesNothingGrabbed"):
            with open(os.path.join(fd, "FLR_%s.cfg" % inv), "w") as f:
                f.write("SPECIFICATION Spec\nCONSTANTS\n  Devs <- MCDevs\n  Emit = FALSE\nINVARIANT %s\nCHECK_DEADLOCK FALSE\n" % inv)
            r = TlcRun(fd, "FLG.tla", "FLR_%s.cfg" % inv, name="FLR_" + inv, workers=1, mem="1g", timeout=300).run()
            reach[inv] = bool(r.invariant_violated())
        import e2
        scheds = e2.schedules_of(g)
        if not scheds:
            res.tool_errors.append("Fleet.tla printed no schedule")
            return {}
        scheds.sort(key=lambda s: json.dumps(s, sort_keys=True))
        want = 150 if tier == "quick" else len(scheds)
        sel = scheds[::max(1, len(scheds) // want)][:want]
        # both discovery paths for every schedule; with --dev-file the paths given are every node of the universe (also the excluded keyboard, the mouse,
        # the virtual keyboard), or - every third case - all but one of the listed keyboards
        nodes = {u[0]: "/dev/input/event%d" % u[5] for u in FL_UNIVERSE}
        cases = []
        for i, s in enumerate(sel):
            cases.append({"id": "FL-%d-all" % i, "mode": "all", "present": s["present"], "bad": s["bad"], "ends": s["ends"], "given": []})
            given = [d for d in ("k0", "k1", "k2") if not (i % 3 == 2 and s["present"] and d == s["present"][i % len(s["present"])])]
            g_present = [d for d in s["present"] if d in given]
            # (a schedule whose keyboards are not all given is only usable when the dropped keyboard plays no part in it)
            if given != ["k0", "k1", "k2"] and (set(s["bad"]) - set(given) or any(e[0] not in given for e in s["ends"])):
                given = ["k0", "k1", "k2"]
            cases.append({"id": "FL-%d-files" % i, "mode": "files", "present": s["present"], "bad": s["bad"], "ends": s["ends"], "given": given,
                          "files": [nodes[d] for d in given] + [nodes["x"], nodes["m"], nodes["v"]]})
        evid.update({"fleet_design_states": g.counts()[1], "fleet_schedules_enumerated": len(scheds), "fleet_design_observations_refuted_by_TLC": reach,
                     "fleet_design_liveness": "Returns (if every worker ends in the end, the function returns in the end) checked by TLC under weak fairness of the function's own steps"})
    else:
        cases = [replay_case]
    nchunks = max(1, min(PROCS, len(cases) // 20 or 1))
    procs = []
    for i in range(nchunks):
        procs.append(fl_record(exe, os.path.join(fd, "ns%d" % i), cases[i::nchunks]))
    traces = []
    for p, tp in procs:
        try:
            _, err = p.communicate(timeout=900)
        except subprocess.TimeoutExpired:
            p.kill()
            res.tool_errors.append("tmv fleet did not finish within 900 s")
            return {}
        if p.returncode != 0:
            res.tool_errors.append("tmv fleet exited with %s: %s" % (p.returncode, (err or b"").decode("utf-8", "replace")[-400:]))
            return {}
        traces.append(tp)
    with open(os.path.join(fd, "FLT.tla"), "w") as f:
        f.write("---- MODULE FLT ----\nEXTENDS FleetTrace\n====\n")
    with open(os.path.join(fd, "FLT.cfg"), "w") as f:
        f.write("SPECIFICATION Spec\nPOSTCONDITION Accepted\nCHECK_DEADLOCK FALSE\n")
    truns = [TlcRun(fd, "FLT.tla", "FLT.cfg", env={"TRACE": t}, name="flt%d" % i, deque=True, mem="2g", timeout=1200) for i, t in enumerate(traces)]
    run_tlc_many(truns)
    regs = [0] * 8
    allbad = []
    for r in truns:
        err = r.other_error()
        acc = r.printed("FL-ACCEPTED")
        if err or not acc:
            res.tool_errors.append("%s: %s" % (r.name, err or "no acceptance line"))
            continue
        v = parse_tla_value(acc[0])
        if v[1] != v[2]:
            res.tool_errors.append("%s: fleet trace not consumed: %d of %d lines" % (r.name, v[1], v[2]))
        regs = [a + b for a, b in zip(regs, v[3])]
        for line in r.printed("FL-BAD"):
            pv = parse_tla_value(line)
            allbad.append((pv[1], sorted(pv[2])))
    env = [(t, c) for t, cl in allbad for c in cl if c.startswith("ENV-")]
    if env:
        res.tool_errors.append("the recorder's fleet environment misbehaved: %s" % env[:3])
    by_id = {c["id"]: c for c in cases}
    aux, c16bad = {}, []
    for t, cl in allbad:
        mine = [c for c in cl if c.startswith("C16-")]
        if mine:
            c16bad.append((t, mine))
        for c in cl:
            if c.startswith("FL-"):
                aux.setdefault(c, []).append(t)
    for c, ts in sorted(aux.items()):
        log("AUX: fleet (not a listed property): %s in %d runs, e.g. %s" % (c, len(ts), ts[0]))
    log("[fleet] %d runs of the real do_remapping_loop_all_devices / do_remapping_loop_multiple_devices in mount namespaces: %d open attempts, %d workers started, %d ended; "
        "returned a worker's error %d times, an open error %d times, Ok %d times; a failure waited behind an earlier listed worker in %d runs; C16 clauses failing in %d runs, auxiliary clauses in %d; %.1fs"
        % (regs[0], regs[1], regs[2], regs[3], regs[4], regs[5], regs[6], regs[7], len(c16bad), sum(len(t) for t in aux.values()), time.time() - t0))
    if replay_case is not None:
        return {"bad": c16bad}
    if not res.tool_errors and (regs[0] == 0 or regs[1] == 0 or regs[2] == 0 or regs[3] == 0 or regs[4] == 0 or regs[5] == 0 or regs[6] == 0):
        res.tool_errors.append("vacuous fleet runs: registers %s" % regs)
    for t, cl in c16bad[:5]:
        res.violation(",".join(cl), {"engine": "E3-fleet", "case": by_id.get(t)})
    if len(c16bad) > 5:
        res.more_violations += len(c16bad) - 5
    evid.update({"fleet_runs": regs[0], "fleet_open_attempts": regs[1], "fleet_workers_started": regs[2], "fleet_workers_ended": regs[3],
                 "fleet_returned_worker_error": regs[4], "fleet_returned_open_error": regs[5], "fleet_returned_ok": regs[6],
                 "fleet_failure_waited_behind_an_earlier_worker": regs[7], "fleet_auxiliary_clauses_failing": {c: len(t) for c, t in aux.items()},
                 "fleet_how": "the real do_remapping_loop_all_devices and do_remapping_loop_multiple_devices (filter_devices_verbose) under unshare -m (real list_keyboards / list_input_devices / "
                              "flag_excluded* on a fabricated device list, /sys/devices and /dev/input; real open_device, worker threads and joins; device nodes scripted), schedules enumerated by "
                              "TLC from spec/Fleet.tla, every recorded call validated against spec/FleetTrace.tla",
                 "fleet_note": "auxiliary except the C16-fleet clauses. Fleet.tla documents what the static fleet gives (devices opened in list order, all or nothing, the first error in list order "
                               "is returned, Ok only when every worker returned Ok, it returns once every worker has ended) and what it does not (observations, each refuted by TLC): a worker's "
                               "failure is reported only after every worker listed before it has ended; the function then returns (and the process exits) while later listed keyboards are still "
                               "being remapped; a failing open leaves the keyboards opened before it grabbed and unserved until the process exits"})
    return evid


def build_real_binary():
    """the repository's own binary (guard off), built from REPO's current working tree into a target directory of ours"""
    import subprocess
    tdir = os.path.join(HARNESS, "target" + repo_tag(), "realbin")
    p = subprocess.run(["cargo", "build", "--offline", "--manifest-path", os.path.join(REPO, "Cargo.toml"), "--target-dir", tdir],
                       stdout=subprocess.PIPE, stderr=subprocess.STDOUT, text=True, env=dict(os.environ, CARGO_NET_OFFLINE="true"))
    binp = os.path.join(tdir, "debug", "totalmapper")
    if p.returncode != 0 or not os.path.exists(binp):
        raise ToolError("building the real binary failed: " + p.stdout[-1500:])
    return binp


def namespaces_available():
    import subprocess
    probe = subprocess.run(["unshare", "-m", "true"], stdout=subprocess.PIPE, stderr=subprocess.PIPE)
    return probe.returncode == 0, probe.stderr.decode()[:200]


def c15_e2e(res, exe, wd, fancy_cases):
    """The real save path: `totalmapper add_systemd_service --layout-file F` in a mount namespace whose /etc is a scratch directory writes
    /etc/totalmapper.json with the real write_layout_to_global_config (its later steps - users, groups, udev - fail there and do not matter);
    the file is then read with the real load_layout_from_file and compared with what the loader makes of F itself."""
    import subprocess, shutil
    ok, why = namespaces_available()
    if not ok:
        res.notes.append("end-to-end save skipped: cannot create a mount namespace here (%s)" % why)
        return {"e2e_saved": 0}
    t0 = time.time()
    binp = build_real_binary()
    d = os.path.join(wd, "save")
    shutil.rmtree(d, ignore_errors=True)
    os.makedirs(os.path.join(d, "etc"))
    inputs, texts = [], []
    for c in fancy_cases:
        ip = os.path.join(d, "in.json")
        json.dump(c["fancy"], open(ip, "w"))
        sp = os.path.join(d, "etc", "totalmapper.json")
        if os.path.exists(sp):
            os.remove(sp)
        subprocess.run(["unshare", "-m", "sh", "-c", "mount --bind %s/etc /etc && exec %s add_systemd_service --layout-file %s" % (d, binp, ip)],
                       stdout=subprocess.PIPE, stderr=subprocess.PIPE, timeout=60)
        inputs.append({"id": c["id"], "json": c["fancy"]})
        texts.append({"id": c["id"], "kind": "text", "text": open(sp).read() if os.path.exists(sp) else ""})
    shutil.rmtree(os.path.join(d, "etc"), ignore_errors=True)
    ipath, tpath = os.path.join(wd, "e2e_inputs.ndjson"), os.path.join(wd, "e2e_saved.ndjson")
    write_ndjson(ipath, inputs)
    write_ndjson(tpath, texts)
    orig = [json.loads(l) for l in run_tmv(exe, ["load", ipath]).splitlines() if l.strip()]
    back = [json.loads(l) for l in run_tmv(exe, ["loadtext", tpath]).splitlines() if l.strip()]
    rows = []
    for o, b, t in zip(orig, back, texts):
        have = o["r1"]["o"] == "ok"
        rows.append({"id": "e2e-%s" % o["id"], "have": have, "orig": o["r1"]["mappings"], "saved": t["text"] != "", "o": b["o"], "msg": b["msg"], "mappings": b["mappings"]})
    rp = os.path.join(wd, "e2e_save_results.ndjson")
    write_ndjson(rp, rows)
    log("[record] real add_systemd_service in a mount namespace saved %d layouts, reloaded with the real loader, %.1fs" % (len(rows), time.time() - t0))
    files, n = split_file(rp, PROCS, wd, "e2esave")
    judged, nontriv, bad, kn, _ = judge(res, wd, "SaveCheck", files, known_ids("C15"))
    report(res, bad, kn, {"e2e-%s" % c["id"]: c for c in fancy_cases}, {r["id"]: r for r in rows}, "E3-save-reload-e2e")
    return {"e2e_saved": judged, "e2e_saved_nontrivial": nontriv,
            "e2e_how": "the real binary's add_systemd_service under unshare -m with /etc bound to a scratch directory: the file written by the real write_layout_to_global_config is reloaded by the real loader"}


def select_e2e(cases, tier):
    want = 60 if tier == "quick" else 1200
    # a real system lists every device once: lists that repeat an entry kind (= the same sysfs path) stay with the extractor-level check
    multi = [c for c in cases if len(c["entries"]) >= 2 and len(set(c["entries"])) == len(c["entries"])]
    # spread over the exclude lists as well as over the device lists: per exclude list the same number of cases, evenly spaced, each group starting at its own offset
    # (a plain stride over the enumeration order had settled on one exclude list - the empty one - for every case)
    groups = {}
    for c in multi:
        groups.setdefault(json.dumps(c["excludes"]), []).append(c)
    sel = []
    per = max(1, want // max(1, len(groups)))
    for gi, (k, g) in enumerate(sorted(groups.items())):
        step = max(1, len(g) // per)
        sel += g[(gi * 7) % step::step][:per]
    # every entry kind is seen end to end at least once without any exclude pattern (first and second position)
    have = {id(c) for c in sel}
    kinds = sorted({k for c in multi for k in c["entries"]})
    for k in kinds:
        for pos in (0, 1):
            c = next((c for c in multi if not c["excludes"] and len(c["entries"]) > pos and c["entries"][pos] == k), None)
            if c is not None and id(c) not in have:
                sel.append(c)
                have.add(id(c))
    return sel


def read_until_quiet(p, marker, quiet, limit):
    """stderr of a process that never ends by itself: read until `marker` has been seen and nothing more has come for `quiet` seconds (or `limit` is up), then kill it"""
    import select
    buf, t0, last = b"", time.time(), time.time()
    fd = p.stderr.fileno()
    while time.time() - t0 < limit:
        r, _, _ = select.select([fd], [], [], 0.03)
        if r:
            chunk = os.read(fd, 65536)
            if not chunk:
                break
            buf += chunk
            last = time.time()
        elif marker in buf and time.time() - last > quiet:
            break
    p.kill()
    p.wait()
    return buf.decode("utf-8", "replace")


def c16_e2e(res, wd, cases, replay_file=None):
    """Selection end to end: the real binary (`remap --verbose`) in a mount namespace with a fabricated /proc/bus/input/devices, /sys/devices and /dev/input;
    which devices it selects on either path is read from its own verbose output (it cannot open the fabricated device nodes, so it stops after selecting)."""
    import subprocess, shutil, re
    if not cases:
        return {}
    probe = subprocess.run(["unshare", "-m", "true"], stdout=subprocess.PIPE, stderr=subprocess.PIPE)
    if probe.returncode != 0:
        res.notes.append("end-to-end selection skipped: cannot create a mount namespace here (%s)" % probe.stderr.decode()[:200])
        return {"e2e_cases": 0, "e2e_how": "skipped (no mount namespace available)"}
    t0 = time.time()
    binp = build_real_binary()
    rows = []
    for c in cases:
        d = os.path.join(wd, "e2e", str(c["id"]))
        shutil.rmtree(d, ignore_errors=True)
        os.makedirs(os.path.join(d, "sys"))
        c0 = c          # (what the judge is told: the placeholder form)
        c = dict(c, text=c["text"].replace("(R)", "\u00ae"), excludes=[p_.replace("(R)", "\u00ae") for p_ in c["excludes"]])
        open(os.path.join(d, "devices"), "w", encoding="utf-8").write(c["text"])
        # one event node per distinct sysfs path in the text
        sysfs = []
        for line in c["text"].splitlines():
            if line.startswith("S: Sysfs=") and line[9:] not in sysfs:
                sysfs.append(line[9:])
        nodes = []
        for i, sp in enumerate(sysfs):
            ed = os.path.join(d, "sys", sp.lstrip("/").replace("devices/", "", 1), "event%d" % i)
            os.makedirs(ed, exist_ok=True)
            open(os.path.join(ed, "uevent"), "w").write("MAJOR=13\nMINOR=%d\nDEVNAME=input/event%d\n" % (64 + i, i))
            nodes.append("/dev/input/event%d" % i)
        exargs = " ".join("--exclude '%s'" % p for p in c["excludes"])
        # every node also gets a second name: a symlink under /dev/input/by-id, and a spelling with a doubled slash
        links = ["/dev/input/by-id/usb-dev%d-event-kbd" % i for i in range(len(nodes))]
        setup = ("mount --bind %s/devices /proc/bus/input/devices && mount --bind %s/sys /sys/devices && mount -t tmpfs tmpfs /dev && mkdir -p /dev/input/by-id && touch %s /dev/input/none; %s "
                 % (d, d, " ".join(nodes) if nodes else "/dev/input/none", " ".join("ln -s ../event%d %s;" % (i, l) for i, l in enumerate(links))))
        # (--auto-all-keyboards is started first and collected after the other runs: it has to be stopped by a time limit)
        c3p = subprocess.Popen(["unshare", "-m", "sh", "-c", setup + "exec %s remap --verbose --default-layout caps-q-for-esc --auto-all-keyboards %s" % (binp, exargs)],
                               stdout=subprocess.DEVNULL, stderr=subprocess.PIPE)
        a = subprocess.run(["unshare", "-m", "sh", "-c", setup + "%s remap --verbose --default-layout caps-q-for-esc --all-keyboards %s" % (binp, exargs)],
                           stdout=subprocess.PIPE, stderr=subprocess.PIPE, text=True, timeout=60)
        dv = " ".join("--dev-file %s" % n for n in nodes)
        b = subprocess.run(["unshare", "-m", "sh", "-c", setup + "%s remap --verbose --default-layout caps-q-for-esc --only-if-keyboard %s %s" % (binp, exargs, dv)],
                           stdout=subprocess.PIPE, stderr=subprocess.PIPE, text=True, timeout=60) if nodes else None
        # the same devices named by symlink / with a doubled slash
        alt = [links[i] if i % 2 == 0 else n.replace("/dev/input/", "/dev//input/") for i, n in enumerate(nodes)]
        b2 = subprocess.run(["unshare", "-m", "sh", "-c", setup + "%s remap --verbose --default-layout caps-q-for-esc --only-if-keyboard %s %s" % (binp, exargs, " ".join("--dev-file %s" % n for n in alt))],
                            stdout=subprocess.PIPE, stderr=subprocess.PIPE, text=True, timeout=60) if nodes else None
        # the third path through the real command line, --auto-all-keyboards: the supervisor lists, filters, says which devices it checks
        # ("Checking which devices are already running"), fails to open the fabricated nodes and then waits for inotify events: it is stopped there
        c3err = read_until_quiet(c3p, b"Checking which devices are already running", 0.15, 4.0)
        sel_auto, in_chk, saw_chk = [], False, False
        for line in c3err.splitlines():
            if line.startswith("Checking which devices are already running"):
                in_chk, saw_chk = True, True
            elif in_chk and line.startswith(" * "):
                m = re.match(r' \* "(.*?)": (true|false)$', line)
                if m and m.group(1) not in sel_auto:
                    sel_auto.append(m.group(1))
            elif in_chk and not line.startswith("Failed to open"):
                in_chk = False
        # list_keyboards: name: path of every keyboard outside the virtual tree (no exclusion on this path)
        lk = subprocess.run(["unshare", "-m", "sh", "-c", setup + "%s list_keyboards" % binp], stdout=subprocess.PIPE, stderr=subprocess.PIPE, text=True, timeout=60)
        listed = [l.rsplit(": ", 1)[1] for l in lk.stdout.splitlines() if ": /dev/" in l]
        # what the binary says it selected
        sel_all, in_list = [], False
        for line in a.stderr.splitlines():
            if line.startswith("Got the list of keyboards:"):
                in_list = True
            elif in_list and line.startswith(" * "):
                m = re.match(r' \* "(.*?)"( \(excluded\))?$', line)
                if m and not m.group(2):
                    sel_all.append(m.group(1))
            elif in_list:
                in_list = False
        n_all = re.search(r"Remapping (\d+) devices", a.stderr)
        sel_dev, n_dev, panicked = [], None, "panicked" in a.stderr
        if b is not None:
            skipped = set(re.findall(r"^Skipping (\S+) ", b.stderr, re.M))
            sel_dev = [n for n in nodes if n not in skipped]
            n_dev = re.search(r"Remapping (\d+) devices", b.stderr)
            panicked = panicked or "panicked" in b.stderr or "panicked" in b2.stderr or "panicked" in lk.stderr
            skipped2 = set(re.findall(r"^Skipping (\S+) ", b2.stderr, re.M))
            sel_alt = [n for n, a2 in zip(nodes, alt) if a2 not in skipped2]
            n_alt = re.search(r"Remapping (\d+) devices", b2.stderr)
        rows.append({"id": c["id"], "entries": c["entries"], "excludes": c0["excludes"], "nodes": [{"sysfs": sp, "node": n} for sp, n in zip(sysfs, nodes)],
                     "sel_all": sel_all, "n_all": int(n_all.group(1)) if n_all else -1,
                     "sel_dev": sel_dev, "n_dev": int(n_dev.group(1)) if n_dev else -1, "panicked": panicked,
                     "sel_alt": sel_alt if b is not None else [], "n_alt": (int(n_alt.group(1)) if n_alt else -1) if b is not None else -1, "listed": listed,
                     "sel_auto": sel_auto, "auto_seen": saw_chk, "panicked_auto": "panicked" in c3err})
        shutil.rmtree(d, ignore_errors=True)
    rp = os.path.join(wd, "e2e_results.ndjson")
    write_ndjson(rp, rows)
    log("[record] real binary in a mount namespace on %d device lists (both discovery paths), %.1fs" % (len(rows), time.time() - t0))
    files, n = split_file(rp, PROCS, wd, "e2e")
    judged, nontriv, bad, kn, _ = judge(res, wd, "DevSelect", files, known_ids("C16"), extra_env={"SINGLES": os.path.join(wd, "singles.ndjson")})
    if replay_file:
        if res.tool_errors:
            log("TOOL-ERROR: " + res.tool_errors[0])
            return 2
        log("  " + json.dumps(rows[0]))
        if bad:
            log("VIOLATION property=C16 replay=%s clause=%s" % (replay_file, ",".join(bad[0][1])))
            return 1
        log("replay: C16 holds end to end for this device list with the current tree")
        return 0
    report(res, bad, kn, {c["id"]: c for c in cases}, {r["id"]: r for r in rows}, "E3-device-list-e2e")
    unobs = [l for f in os.listdir(wd) if f.startswith("tlc_judge_DevSelect") for l in open(os.path.join(wd, f)) if l.startswith('<<"AUX"') or l.startswith('<< "AUX"')]
    lk_aux = [l for l in unobs if "list_keyboards" in l]
    unobs = [l for l in unobs if "list_keyboards" not in l]
    if lk_aux:
        log("AUX: end-to-end selection (not a listed property): `list_keyboards` differs from the keyboards outside the virtual tree on %d device lists, e.g. %s" % (len(lk_aux), lk_aux[0].strip()[:200]))
    if unobs:
        log("AUX: end-to-end selection: on %d device lists the binary's --verbose text is not consistent with itself (announced count vs listing); those paths are not judged from the text, "
            "selection there is judged where devices are opened (fleet / supervisor runs). e.g. %s" % (len(unobs), unobs[0].strip()[:200]))
    return {"e2e_cases": judged, "e2e_cases_with_a_path_whose_verbose_text_is_not_self_consistent": len(unobs), "e2e_auto_all_keyboards_runs_that_reached_the_scan": sum(1 for r in rows if r.get("auto_seen")), "e2e_how": "the real binary `remap --verbose` under unshare -m with fabricated /proc/bus/input/devices, /sys/devices and /dev/input on %d lists, "
                                             "--all-keyboards, --auto-all-keyboards and --dev-file --only-if-keyboard, selection read from its verbose output and judged by DevSelect.tla" % judged}


# ------------------------------------------------------------------ C17: self-check of the oracle against the real systemd

def parse_command_line_dump(text):
    """argv from the `Command Line:` line of `systemd --test`: quote_command_line() separates words by one blank and passes each
    through shell_maybe_quote(): a word that needs it is wrapped in double quotes; inside, control characters are C-escaped
    (\\a \\b \\f \\n \\r \\t \\v, octal \\NNN), and \\ " $ ` get a backslash."""
    ctl = {"a": 7, "b": 8, "f": 12, "n": 10, "r": 13, "t": 9, "v": 11}
    out, i, n = [], 0, len(text)
    while i < n:
        if text[i] == "\n":
            break
        if text[i] == " ":
            i += 1
            continue
        w = []
        if text[i] == '"':
            i += 1
            while i < n and text[i] != '"':
                if text[i] == "\\" and i + 1 < n:
                    c = text[i + 1]
                    if c in ctl:
                        w.append(ctl[c])
                        i += 2
                        continue
                    if c in "01234567" and i + 3 < n and text[i + 2] in "01234567" and text[i + 3] in "01234567":
                        w.append(int(text[i + 1:i + 4], 8))
                        i += 4
                        continue
                    i += 1
                w.append(ord(text[i]))
                i += 1
            i += 1
        else:
            while i < n and text[i] not in " \n":
                w.append(ord(text[i]))
                i += 1
        out.append(w)
    return out


def sd_oracle_check(res, wd, tier):
    import subprocess, shutil
    sd = "/lib/systemd/systemd"
    if not (os.path.exists(sd) and shutil.which("setpriv")):
        res.notes.append("oracle self-check skipped: systemd or setpriv not available")
        return {"oracle_selfcheck": "skipped (systemd/setpriv not available)"}
    t0 = time.time()
    opath, g = generate(wd, "SdOracle", {"Depth": 3}, out="sd_expected.ndjson", timeout=1800)
    exp = read_ndjson(opath)
    d = os.path.join(wd, "sd")
    shutil.rmtree(d, ignore_errors=True)
    os.makedirs(os.path.join(d, "units"))
    os.makedirs(os.path.join(d, "run"))
    for p in (d, os.path.join(d, "units"), os.path.join(d, "run"), wd, os.path.dirname(wd), ROOT):
        try:
            os.chmod(p, os.stat(p).st_mode | 0o055)
        except OSError:
            pass
    os.chmod(os.path.join(d, "run"), 0o777)
    wants = []
    for c in exp:
        raw = "".join(chr(x) for x in c["raw"])
        with open(os.path.join(d, "units", "c%d.service" % c["id"]), "w") as f:
            f.write("[Service]\nExecStart=/bin/true --x %s --y\n" % raw)
        wants.append("c%d.service" % c["id"])
    with open(os.path.join(d, "units", "default.target"), "w") as f:
        f.write("[Unit]\n" + "".join("Wants=%s\n" % w for w in wants))
    env = {"HOME": d, "XDG_RUNTIME_DIR": os.path.join(d, "run"), "SYSTEMD_UNIT_PATH": os.path.join(d, "units"), "PATH": os.environ.get("PATH", "")}
    try:
        p = subprocess.run(["setpriv", "--reuid=65534", "--regid=65534", "--clear-groups", sd, "--test", "--user", "--unit=default.target", "--log-target=console"],
                           env=env, stdout=subprocess.PIPE, stderr=subprocess.STDOUT, timeout=600)
    except subprocess.TimeoutExpired:
        res.notes.append("oracle self-check skipped: systemd --test timed out")
        return {"oracle_selfcheck": "skipped (timeout)"}
    dump = p.stdout.decode("latin-1")
    got = {}
    for m in re.finditer(r"-> Unit c(\d+)\.service:\n(.*?)(?=\n\t-> Unit |\Z)", dump, re.S):
        body = m.group(2)
        cl = re.search(r"Command Line: ", body)
        state = re.search(r"Unit Load State: (\S+)", body)
        got[int(m.group(1))] = {"argv": parse_command_line_dump(body[cl.end():]) if cl else None, "state": state.group(1) if state else "?"}
    if len(got) < len(exp) * 0.9:
        res.notes.append("oracle self-check skipped: systemd --test dumped only %d of %d units (%s)" % (len(got), len(exp), dump[-300:].replace("\n", " ")))
        return {"oracle_selfcheck": "skipped (no dump)"}
    dis = []
    for c in exp:
        g1 = got.get(c["id"])
        if g1 is None:
            continue
        spec_ok = c["ok"] and not c["semi"]
        real_ok = g1["argv"] is not None
        if c["ok"] and c["semi"]:
            # a second command on the line: systemd shows the first one; C17 treats it as a failure either way
            continue
        def same(a, b):
            # a word in which the spec expanded a specifier (marker value) matches whatever systemd expanded it to
            return len(a) == len(b) and all(any(x >= 2000000 for x in wa) or wa == wb for wa, wb in zip(a, b))
        if spec_ok != real_ok or (spec_ok and not same(c["argv"], g1["argv"])):
            dis.append({"raw": "".join(chr(x) for x in c["raw"]), "spec": c["argv"] if spec_ok else "invalid", "systemd": g1["argv"] if real_ok else "invalid (" + g1["state"] + ")"})
    log("[oracle] SystemdExec!Parsed vs systemd --test on %d raw argument texts: %d disagreements, %.1fs" % (len(exp), len(dis), time.time() - t0))
    if dis:
        res.tool_errors.append("the C17 oracle (SystemdExec.tla) disagrees with the real systemd on %d of %d texts, e.g. %s" % (len(dis), len(exp), json.dumps(dis[:3])))
    return {"oracle_selfcheck": "SystemdExec!Parsed = real `systemd --test` dump on %d of %d raw argument texts (all strings of length <= 3 over 15 syntax characters, plus \\\\xHH and quoted forms)" % (len(exp) - len(dis), len(exp))}
