# Engine E3: generated cases for the functional parts. A TLA+ generator module enumerates the cases
# (TLC writes them as ndjson), the recorder feeds each case to the real code, and a TLA+ judge
# module evaluates the property predicate on every (case, recorded result) pair. Python only moves
# files around and formats what TLC printed.
import json, os, time
from common import *


def write_cfg(wd, name, consts=None, module_consts=None, extends=None):
    """cfg for a generator/judge module (trivial behaviour spec; the work is in ASSUMEs). Constants that
    are not plain cfg values are defined in a generated module MC_<name> extending the module."""
    mod = name
    if module_consts:
        mod = "MC_" + name
        with open(os.path.join(wd, mod + ".tla"), "w") as f:
            f.write("---- MODULE %s ----\nEXTENDS %s\n" % (mod, name))
            for k, v in module_consts.items():
                f.write("MC%s == %s\n" % (k, v))
            f.write("====\n")
    with open(os.path.join(wd, mod + ".cfg"), "w") as f:
        f.write("INIT Init\nNEXT Next\nCHECK_DEADLOCK FALSE\n")
        if consts or module_consts:
            f.write("CONSTANTS\n")
            for k, v in (consts or {}).items():
                f.write("  %s = %s\n" % (k, v))
            for k in (module_consts or {}):
                f.write("  %s <- MC%s\n" % (k, k))
    return mod


def generate(wd, module, consts=None, out="cases.ndjson", env=None, timeout=1800, mem="6g", module_consts=None):
    mod = write_cfg(wd, module, consts, module_consts)
    path = os.path.join(wd, out)
    e = {"OUT": path}
    e.update(env or {})
    r = TlcRun(wd, mod + ".tla", mod + ".cfg", env=e, name="gen_" + module + "_" + out.split(".")[0], timeout=timeout, mem=mem).run()
    err = r.other_error()
    if err:
        raise ToolError("case generator %s failed: %s" % (module, err))
    if not os.path.exists(path):
        raise ToolError("case generator %s wrote nothing" % module)
    return path, r


def split_file(path, n, wd, stem):
    lines = [l for l in open(path) if l.strip()]
    n = max(1, min(n, len(lines)))
    out = []
    for i in range(n):
        p = os.path.join(wd, "%s_%d.ndjson" % (stem, i))
        with open(p, "w") as f:
            f.writelines(lines[i::n])
        out.append(p)
    return out, len(lines)


def judge(res, wd, module, result_files, known, extra_env=None, consts=None, timeout=3000, mem="3g", module_consts=None):
    """Runs the judge module over every results file; returns (judged, nontrivial, bad, knownhits) where bad and
    knownhits are lists of (case id, [clause ids])."""
    mc = {"KnownIds": tla_set(known)}
    mc.update(module_consts or {})
    mod = write_cfg(wd, module, consts, mc)
    runs = []
    for i, rf in enumerate(result_files):
        e = {"RESULTS": rf}
        e.update(extra_env or {})
        runs.append(TlcRun(wd, mod + ".tla", mod + ".cfg", env=e, name="judge_%s_%d" % (module, i), timeout=timeout, mem=mem))
    t0 = time.time()
    run_tlc_many(runs)
    log("[tlc] %s: %d processes, %.1fs" % (module, len(runs), time.time() - t0))
    judged = nontrivial = 0
    bad, kn, extra = [], [], []
    for r in runs:
        err = r.other_error()
        if err:
            res.tool_errors.append("%s: %s" % (r.name, err))
            continue
        for line in r.printed("JUDGED"):
            v = parse_tla_value(line)
            judged += v[1]
            nontrivial += v[2]
            extra.append(v[3:])
        for line in r.printed("BAD"):
            v = parse_tla_value(line)
            bad.append((v[1], sorted(v[2])))
        for line in r.printed("KNOWN"):
            v = parse_tla_value(line)
            kn.append((v[1], sorted(v[2])))
        for line in r.printed("DRIFT"):
            res.drift.append(line[:1200])
    return judged, nontrivial, bad, kn, extra


def report(res, bad, kn, case_by_id, result_by_id, engine, max_replays=10):
    for cid, clauses in kn:
        for c in clauses:
            k = known_entry_for(c)
            res.known_hit(k["id"] if k else c, "%s in case %s" % (c, cid))
    for cid, clauses in bad[:max_replays]:
        res.violation(",".join(clauses), {"engine": engine, "case": case_by_id.get(cid), "observed": result_by_id.get(cid)})
    if len(bad) > max_replays:
        res.notes.append("%d violating cases in total; replay files were written for the first %d" % (len(bad), max_replays))
        res.more_violations += len(bad) - max_replays


# ------------------------------------------------------------------ C17

def cp_str(cps):
    return "".join(chr(c) if 32 <= c < 127 else "\\u{%x}" % c for c in cps)


def c17(tier, replay_file=None):
    prop = "C17"
    res = Result(prop, tier, "exploration")
    try:
        exe = build_harness()
        wd = workdir("%s-%s" % (prop, "replay" if replay_file else tier))
        if replay_file:
            rp = json.load(open(replay_file))
            cases = [rp["case"]]
            cpath = os.path.join(wd, "cases.ndjson")
            write_ndjson(cpath, cases)
        else:
            cpath, g = generate(wd, "SvcGen", {"Depth": 2 if tier == "quick" else 3})
            cases = read_ndjson(cpath)
            # random strings and lists over a wider alphabet (data only; the judge is SvcCheck)
            rng = det_rng("c17", 0 if tier == "quick" else seed())
            wide = [92, 39, 34, 32, 9, 10, 13, 37, 36, 123, 125, 59, 42, 63] + list(range(33, 127)) + [1, 7, 8, 27, 127, 133, 160, 233, 0x3b1, 0x4e2d, 0xfffd, 0x1f600, 0x10ffff]
            n0 = len(cases)
            for i in range(600 if tier == "quick" else 20000):
                pats = [[rng.choice(wide) for _ in range(rng.randint(1, 12))] for _ in range(rng.choice([1, 1, 2, 3]))]
                cases.append({"id": n0 + i + 1, "pats": pats})
            write_ndjson(cpath, cases)
        rpath = os.path.join(wd, "results.ndjson")
        t0 = time.time()
        run_tmv(exe, ["svc", cpath], stdout_path=rpath)
        log("[record] build_service_text on %d pattern lists, %.1fs" % (len(cases), time.time() - t0))
        files, n = split_file(rpath, PROCS, wd, "res")
        judged, nontriv, bad, kn, _ = judge(res, wd, "SvcCheck", files, known_ids(prop))
        case_by_id = {c["id"]: c for c in cases}
        result_by_id = {r["id"]: {"line": cp_str(r["line"]), "line_codepoints": r["line"]} for r in read_ndjson(rpath)} if (bad or replay_file) else {}
        if replay_file:
            if res.tool_errors:
                log("TOOL-ERROR: " + res.tool_errors[0])
                return 2
            log("  ExecStart=" + result_by_id[cases[0]["id"]]["line"])
            if bad:
                log("VIOLATION property=C17 replay=%s clause=%s" % (replay_file, ",".join(bad[0][1])))
                return 1
            log("replay: C17 holds for this pattern list with the current tree")
            return 0
        scal = {}
        if not res.tool_errors:
            scal = c17_scalars(res, exe, wd, tier)
        report(res, bad, kn, case_by_id, result_by_id, "E3-unit-file")
        if judged != len(cases) and not res.tool_errors:
            res.tool_errors.append("judged %d of %d cases" % (judged, len(cases)))
        res.coverage = {
            "evaluations": judged + scal.get("scalars_judged", 0), "distinct_nontrivial": nontriv,
            "rule": "pattern lists: every string of length <= %d over 28 syntax-relevant code points (all characters the ExecStart reader treats specially, "
                    "one representative of each class it does not), longer strings that start with an escape/specifier/variable introducer, two- and three-pattern "
                    "lists, and random strings and lists over a wider alphabet; plus every Unicode scalar value except NUL as a one-character pattern (%s). "
                    "Non-trivial = contains a character the reader treats specially, a control or a non-ASCII character. Each case: real build_service_text, "
                    "then SystemdExec!ExecDecode must return exactly the intended argument vector." % (2 if tier == "quick" else 3, scal.get("how", "not run")),
            "samples": [{"patterns": [cp_str(p) for p in c["pats"]], "code_points": c["pats"]} for c in (cases[0], cases[len(cases) // 3], cases[-1])],
            "pattern_lists": len(cases), "exhaustive": False,
        }
        res.coverage.update(scal)
        res.assumptions = ["SystemdExec.tla is a faithful transcription of systemd 252's ExecStart reader (cross-checked against the real `systemd --test` in the thorough tier when available)",
                           "patterns are non-empty and contain no NUL"]
    except ToolError as e:
        res.tool_errors.append(str(e))
    return res.finish()


def c17_scalars(res, exe, wd, tier):
    """Every Unicode scalar as a one-character pattern. The recorder compresses identity encodings into ranges; TLC
    decodes every non-identity entry and representatives of every identity range concretely (quick), or every
    single scalar concretely (thorough), and checks that no identity range meets the reader's special set."""
    t0 = time.time()
    spath = os.path.join(wd, "scalars.json")
    run_tmv(exe, ["svcscalars"], stdout_path=spath)
    sc = json.load(open(spath))
    log("[record] build_service_text on %d scalars: %d identity ranges, %d non-identity, %.1fs" % (sc["scalars"], len(sc["identity"]), len(sc["other"]), time.time() - t0))
    rows = []
    for o in sc["other"]:
        rows.append({"id": o["c"], "pats": [[o["c"]]], "o": "ok" if o["line"] else "noline", "line": o["line"], "nlines": o["nlines"]})
    prefix, suffix = sc["prefix"], sc["suffix"]     # the recorder verified line = prefix + scalar + suffix for every identity scalar
    reps = 0
    for lo, hi in sc["identity"]:
        if tier == "thorough":
            cs = range(lo, hi + 1)
        else:
            cs = sorted({lo, hi, (lo + hi) // 2, min(hi, lo + 1), max(lo, hi - 1)})
        for c in cs:
            rows.append({"id": c, "pats": [[c]], "o": "ok", "line": prefix + [c] + suffix, "nlines": 9})
            reps += 1
    rp = os.path.join(wd, "scalar_results.ndjson")
    write_ndjson(rp, rows)
    files, n = split_file(rp, PROCS, wd, "scal")
    judged, nontriv, bad, kn, _ = judge(res, wd, "SvcCheck", files, known_ids("C17"))
    rbad = []
    # identity ranges must avoid the special set: judged by TLC as well
    rfile = os.path.join(wd, "ranges.ndjson")
    write_ndjson(rfile, [{"prefix": prefix, "suffix": suffix}] + [{"lo": lo, "hi": hi} for lo, hi in sc["identity"]])
    j2, _, bad2, kn2, _ = judge(res, wd, "SvcRanges", [rfile], known_ids("C17"))
    report(res, bad + bad2, kn + kn2, {r["id"]: {"id": r["id"], "pats": r["pats"]} for r in rows}, {r["id"]: {"line": cp_str(r["line"]), "line_codepoints": r["line"]} for r in rows}, "E3-unit-file-scalars")
    covered = sum(hi - lo + 1 for lo, hi in sc["identity"]) + len(sc["other"])
    return {"scalars_total": sc["scalars"], "scalars_covered_by_class_or_concretely": covered, "scalars_judged": judged,
            "identity_ranges": len(sc["identity"]), "non_identity_scalars": len(sc["other"]),
            "how": "all %d scalars through the real encoder; %d decoded concretely by TLC, identity ranges checked against the reader's special set" % (sc["scalars"], judged)}


# ------------------------------------------------------------------ C18

def kernel_codes(path="/usr/include/linux/input-event-codes.h"):
    """name -> code from the kernel header (KEY_* only, aliases resolved). The tool's names drop the KEY_ prefix."""
    import re
    defs = {}
    for line in open(path):
        m = re.match(r"#define\s+(KEY_\w+)\s+(\S+)", line)
        if m:
            defs[m.group(1)] = m.group(2)
    out = {}
    for k, v in defs.items():
        seen = 0
        while v in defs and seen < 5:
            v = defs[v]
            seen += 1
        try:
            out[k[4:]] = int(v, 0)
        except ValueError:
            pass
    return out


def c18(tier, replay_file=None):
    prop = "C18"
    res = Result(prop, tier, "other")
    try:
        exe = build_harness()
        wd = workdir("%s-%s" % (prop, "replay" if replay_file else tier))
        kpath = os.path.join(wd, "keys.ndjson")
        run_tmv(exe, ["keys"], stdout_path=kpath)
        toolkeys = read_ndjson(kpath)
        kc = kernel_codes()
        kc.pop("RESERVED", None)
        kc.pop("MAX", None)
        kc.pop("CNT", None)
        cpath_codes = os.path.join(wd, "codes.ndjson")
        write_ndjson(cpath_codes, [{"name": n, "code": c} for n, c in sorted(kc.items(), key=lambda x: x[1])])
        missing = [k["name"] for k in toolkeys if k["name"] not in kc]
        if missing:
            res.notes.append("key names of the tool that the kernel header does not define (not judged): %s" % missing[:10])
            toolkeys = [k for k in toolkeys if k["name"] in kc]
            write_ndjson(kpath, toolkeys)
        if replay_file:
            cases = [json.load(open(replay_file))["case"]]
            cpath = os.path.join(wd, "cases.ndjson")
            write_ndjson(cpath, cases)
        else:
            cpath, g = generate(wd, "WireGen", {"MaxLen": 3 if tier == "quick" else 4, "MaxItems": 2 if tier == "quick" else 3}, env={"KEYS": kpath})
            cases = read_ndjson(cpath)
            rng = det_rng("c18", 0 if tier == "quick" else seed())
            names = [k["name"] for k in toolkeys]
            n0 = len(cases)
            for i in range(200 if tier == "quick" else 3000):
                writes = []
                for _ in range(rng.randint(1, 4)):
                    if rng.random() < 0.6:
                        writes.append({"batch": [{"t": rng.choice("PR"), "k": rng.choice(names)} for _ in range(rng.choice([0, 1, 2, 5, 17, 40]))]})
                    else:
                        writes.append({"raw": [rng.choice([0, 1, 1, 1, 2, 3, 4, 17, 20]), rng.randint(0, 800), rng.choice([-1, 0, 1, 2, 3, 65536])]})
                cases.append({"id": n0 + i + 1, "writes": writes})
            write_ndjson(cpath, cases)
        rpath = os.path.join(wd, "results.ndjson")
        t0 = time.time()
        run_tmv(exe, ["wire", cpath], stdout_path=rpath)
        log("[record] send/next over a pipe for %d cases, %.1fs" % (len(cases), time.time() - t0))
        files, n = split_file(rpath, PROCS, wd, "res")
        judged, nontriv, bad, kn, _ = judge(res, wd, "WireCheck", files, known_ids(prop), extra_env={"CODES": cpath_codes, "KEYS": kpath})
        case_by_id = {c["id"]: c for c in cases}
        results = read_ndjson(rpath)
        result_by_id = {r["id"]: r for r in results} if (bad or replay_file) else {}
        if replay_file:
            if res.tool_errors:
                log("TOOL-ERROR: " + res.tool_errors[0])
                return 2
            log("  " + json.dumps(results[0])[:1500])
            if bad:
                log("VIOLATION property=C18 replay=%s clause=%s" % (replay_file, ",".join(bad[0][1])))
                return 1
            log("replay: C18 holds for this case with the current tree")
            return 0
        report(res, bad, kn, case_by_id, result_by_id, "E3-wire")
        if judged != len(cases) and not res.tool_errors:
            res.tool_errors.append("judged %d of %d cases" % (judged, len(cases)))
        nsingle = sum(1 for c in cases if len(c["writes"]) == 1 and "batch" in c["writes"][0] and len(c["writes"][0]["batch"]) == 1)
        res.coverage = {
            "explanation": "encode/decode fidelity, decided by a TLA+ reference (Wire!Encode, Wire!ReadFilter) evaluated by TLC on the bytes the real DevInputWriter::send "
                           "wrote to a pipe and on what the real DevInputReader::next decoded from it; record layout from libc::input_event, key codes from the kernel's "
                           "input-event-codes.h. Exhaustive over (key code, press/release) singly; bounded batches and foreign-record interleavings enumerated by TLC; random longer ones.",
            "evaluations": judged, "distinct_nontrivial": nontriv,
            "rule": "every key the tool knows x {press, release} as a one-event batch (%d cases); every batch of length <= %d over 5 events; every sequence of <= %d writes over "
                    "3 batches and 12 foreign records; random batches up to 40 events with foreign records. Non-trivial = anything but the empty batch." % (nsingle, 3 if tier == "quick" else 4, 2 if tier == "quick" else 3),
            "samples": [cases[0], cases[len(cases) // 2], cases[-1]],
            "single_event_cases": nsingle, "tool_keys": len(toolkeys), "record_layout": results[0]["layout"] if results else None,
            "exhaustive": False,
        }
        res.assumptions = ["libc::input_event describes the running kernel's struct input_event", "/usr/include/linux/input-event-codes.h is the kernel's code table",
                           "a pipe preserves the bytes written (the uinput device itself is not available in the sandbox)"]
    except ToolError as e:
        res.tool_errors.append(str(e))
    return res.finish()


# ------------------------------------------------------------------ C13

def strip_expect(cases_path, out_path):
    """The recorder only needs id/json/json2."""
    with open(cases_path) as f, open(out_path, "w") as g:
        for l in f:
            if l.strip():
                c = json.loads(l)
                g.write(json.dumps({"id": c["id"], "json": c["json"], "json2": c["json2"]}, separators=(",", ":")) + "\n")


def c13(tier, replay_file=None):
    prop = "C13"
    res = Result(prop, tier, "translation_validation")
    try:
        exe = build_harness()
        wd = workdir("%s-%s" % (prop, "replay" if replay_file else tier))
        if replay_file:
            rp = json.load(open(replay_file))
            cpath = os.path.join(wd, "cases.ndjson")
            write_ndjson(cpath, [rp["case"]])
        else:
            t0 = time.time()
            cpath, g = generate(wd, "FancyGen", {"Size": 1 if tier == "quick" else 2}, timeout=3600, mem="12g")
            log("[tlc] FancyGen: %s in %.1fs" % (g.printed("GENERATED"), time.time() - t0))
        ipath = os.path.join(wd, "inputs.ndjson")
        strip_expect(cpath, ipath)
        rpath = os.path.join(wd, "results.ndjson")
        t0 = time.time()
        run_tmv(exe, ["load", ipath], stdout_path=rpath)
        cfiles, n = split_file(cpath, PROCS, wd, "case")
        rfiles, n2 = split_file(rpath, PROCS, wd, "res")
        log("[record] real loader on %d programs x 2 spellings, %.1fs" % (n, time.time() - t0))
        if n != n2:
            raise ToolError("recorder returned %d results for %d cases" % (n2, n))
        # one judge process per (cases, results) pair
        mod = write_cfg(wd, "FancyCheck", None, {"KnownIds": tla_set(known_ids(prop) + known_ids("C14")), "Prop": tla_str(prop)})
        runs = [TlcRun(wd, mod + ".tla", mod + ".cfg", env={"CASES": c, "RESULTS": r}, name="judge_%d" % i, timeout=3000) for i, (c, r) in enumerate(zip(cfiles, rfiles))]
        t0 = time.time()
        run_tlc_many(runs)
        log("[tlc] FancyCheck: %d processes, %.1fs" % (len(runs), time.time() - t0))
        judged = nontriv = acc = rej = 0
        bad, kn = [], []
        for r in runs:
            err = r.other_error()
            if err:
                res.tool_errors.append("%s: %s" % (r.name, err))
                continue
            for line in r.printed("JUDGED"):
                v = parse_tla_value(line)
                judged, nontriv, acc, rej = judged + v[1], nontriv + v[2], acc + v[3], rej + v[4]
            bad += [(parse_tla_value(l)[1], sorted(parse_tla_value(l)[2])) for l in r.printed("BAD")]
            kn += [(parse_tla_value(l)[1], sorted(parse_tla_value(l)[2])) for l in r.printed("KNOWN")]
            res.drift += [l[:600] for l in r.printed("DRIFT")]
        need = {cid for cid, _ in bad[:10]} | ({1} if replay_file else set())
        case_by_id, result_by_id = {}, {}
        samples = []
        with open(cpath) as f:
            for i, l in enumerate(f):
                if not l.strip():
                    continue
                c = json.loads(l)
                if c["id"] in need:
                    case_by_id[c["id"]] = c
                if i in (0, n // 2, n - 1):
                    samples.append({"program": c["json"], "second_spelling": c["json2"], "expected_mappings": len(c["expect"]["mappings"]), "expected_accept": c["expect"]["ok"]})
        if need:
            for r in read_ndjson(rpath):
                if r["id"] in need:
                    result_by_id[r["id"]] = r
        if replay_file:
            if res.tool_errors:
                log("TOOL-ERROR: " + res.tool_errors[0])
                return 2
            c, r = json.load(open(replay_file))["case"], read_ndjson(rpath)[0]
            log("  program:  " + json.dumps(c["json"]))
            log("  expected: " + json.dumps(c["expect"]["mappings"])[:1500])
            log("  actual:   " + json.dumps(r["r1"])[:1500])
            if bad:
                log("VIOLATION property=C13 replay=%s clause=%s" % (replay_file, ",".join(bad[0][1])))
                return 1
            log("replay: C13 holds for this program with the current tree")
            return 0
        report(res, bad, kn, case_by_id, result_by_id, "E3-layout-language")
        if judged != n and not res.tool_errors:
            res.tool_errors.append("judged %d of %d cases" % (judged, n))
        res.coverage = {
            "programs": judged, "disagreements_checked": judged * 2, "samples": samples,
            "accepted_by_real_loader": acc, "rejected_by_real_loader": rej, "nontrivial_programs": nontriv,
            "accept_reject_disagreements_with_spec": len(res.drift),
            "rule": "programs of the bounded grammar of FancyGen.tla (alias blocks with several definitions, multi-key definitions and extra output keys; single, row and "
                    "repeat-only mappings with 0-3 alias/plain modifiers, aliases on the output, repeat and absorbing side; every printable character and space at "
                    "several positions of every row with/without RIGHTSHIFT; mapping + repeat-only pairs), each in two spellings, run through the real "
                    "parse_layout_from_json + convert and compared block-wise with Fancy!Expand by TLC. disagreements_checked = comparisons made (expansion and spelling per program).",
            "exhaustive": True,
        }
        res.assumptions = ["the US-QWERTY tables of Fancy.tla (independent transcription)", "bounded grammar; see FancyGen.tla"]
        if not res.violations and not res.tool_errors and nontriv < 100:
            res.tool_errors.append("vacuous run: only %d non-trivial programs" % nontriv)
    except ToolError as e:
        res.tool_errors.append(str(e))
    return res.finish()
