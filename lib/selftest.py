# Negative controls for the binding between specification and code (DESIGN.md section 7): take what the recorder
# recorded from the REAL code on the unchanged tree, corrupt ONE recorded field (or drop / insert one recorded call), and
# require that TLC rejects the corrupted record with the expected clause - and accepts the uncorrupted one. A spec that
# accepted these would constrain nothing. Run by `bin/selftest`; not a property check (no evidence file).
import json, os, copy, sys
from common import *
import e1, e2, e3
import families as F


class R:
    """minimal stand-in for common.Result used by the engine functions"""

    def __init__(self):
        self.tool_errors, self.drift, self.notes, self.known, self.violations, self.more_violations = [], [], [], {}, [], 0

    def known_hit(self, a, b):
        pass

    def violation(self, clause, obj):
        self.violations.append((clause, obj))
        return ""


OUT = []


def expect(name, got, want_any):
    ok = any(w in got for w in want_any) if want_any else not got
    OUT.append((name, ok, got, want_any))
    log("%s  %-58s got=%s%s" % ("PASS" if ok else "FAIL", name, sorted(got)[:4], "" if ok else "  expected one of %s" % (want_any or "nothing")))


def mapper_table(exe):
    wd = workdir("selftest-e1")
    job = F.job("st", [F.M(["A"], ["B"]), F.M(["LEFTSHIFT", "A"], ["LEFTCTRL", "D"]), F.M(["C"], ["C"], F.S(["E"]))])
    stats, shards = e1.tabulate(exe, wd, [job], 1)

    def run(prop, mutate=None, label=""):
        rows = read_ndjson(shards[0])
        if mutate:
            mutate(rows)
        p = os.path.join(wd, "shard_%s.ndjson" % label)
        write_ndjson(p, rows)
        e1.write_mc(wd, [prop, "RA"], [], e1.TAGS[prop])
        r = TlcRun(wd, "MC.tla", "MC.cfg", env={"TABLE": p, "REPLAY": ""}, name="st_" + label).run()
        if r.other_error():
            return {"TOOL-ERROR: " + r.other_error()[:200]}, 0
        cnt = [parse_tla_value(l)[1] for l in r.printed("COUNTERS")]
        drifts = cnt[0][len(e1.TAGS[prop]) + 1] if cnt else 0
        st = r.cex_states()
        return (set(st[-1].get("viol", [])) if r.invariant_violated() and st else set()), drifts
    v, d = run("C03", None, "clean")
    expect("E1 table as recorded: accepted, no drift", v | ({"drift"} if d else set()), [])

    def m1(rows):   # the press of A from rest emits P:C instead of P:B
        rows[1]["tr"][0]["ev"] = [{"t": "P", "k": "C"}]
    v, d = run("C03", m1, "ev")
    expect("E1 one emitted event changed -> C03 clause", v, ["C03a", "C03b"])
    expect("E1 one emitted event changed -> conformance drift", {"drift"} if d else set(), ["drift"])

    def m2(rows):   # the Special mapping's repeat instruction is dropped
        ki = rows[0]["layouts"][0]["keys"].index("C")
        rows[1]["tr"][2 * ki]["rep"] = {"kind": "Disabled"}
    v, d = run("C09", m2, "rep")
    expect("E1 repeat instruction changed -> C09 clause", v, ["C09-special"])

    def m3(rows):   # a release is duplicated in the output of the release of A
        ki = rows[0]["layouts"][0]["keys"].index("A")
        sid = rows[1]["tr"][2 * ki]["n"]
        rows[sid]["tr"][2 * ki + 1]["ev"] = rows[sid]["tr"][2 * ki + 1]["ev"] * 2
    v, d = run("C19", m3, "dup")
    expect("E1 a release duplicated -> C19 clause", v, ["C19"])


def loop_traces(exe):
    wd = workdir("selftest-e2")
    L = lambda a, t="", k="", x="": {"a": a, "t": t, "k": k, "x": x}
    sched = [L("arrK", "P", "S"), L("arrK", "P", "A"), L("poll", "dev", "", "KT"), L("readK"), L("readK"), L("readK"),
             L("poll", "timeout", "", "timed"), L("poll", "timeout", "", "timed"),
             L("arrT", "On"), L("poll", "dev", "", "KT"), L("readT"), L("readT"),
             L("arrK", "R", "A"), L("poll", "dev", "", "KT"), L("readK"), L("readK"),
             L("arrT", "Off"), L("arrK", "P", "A"), L("poll", "dev", "", "TK"), L("readT"), L("readT"), L("readK"), L("readK"),
             L("arrK", "E", ""), L("poll", "dev", "", "KT"), L("readK")]
    layout = [e2.M(["A"], ["B"]), e2.M(["S"], ["S"], e2.S(["C"]))]
    # P:A after P:S cancels the repeat; use a second schedule where the repeat runs
    sched2 = [L("arrK", "P", "S"), L("poll", "dev", "", "KT"), L("readK"), L("readK"), L("poll", "timeout", "", "timed"), L("poll", "timeout", "", "timed"),
              L("arrK", "E", ""), L("poll", "dev", "", "KT"), L("readK")]
    cp = os.path.join(wd, "cases.ndjson")
    write_ndjson(cp, [{"id": "a", "layout": layout, "sched": sched, "sleep": "no", "faults": 0}, {"id": "b", "layout": layout, "sched": sched2, "sleep": "no", "faults": 0},
                      {"id": "c", "layout": layout, "sched": sched2, "sleep": "no", "faults": 3}])
    tp = os.path.join(wd, "trace.ndjson")
    run_tmv(exe, ["loop", cp], stdout_path=tp)
    base = read_ndjson(tp)
    with open(os.path.join(wd, "LT.tla"), "w") as f:
        f.write("---- MODULE LT ----\nEXTENDS LoopTrace\nMCKnown == {}\n====\n")
    with open(os.path.join(wd, "LT.cfg"), "w") as f:
        f.write("SPECIFICATION Spec\nCONSTANTS\n  KnownIds <- MCKnown\nPOSTCONDITION Accepted\nCHECK_DEADLOCK FALSE\n")

    def run(mutate, label):
        rows = copy.deepcopy(base)
        if mutate:
            rows = mutate(rows) or rows
        p = os.path.join(wd, "t_%s.ndjson" % label)
        write_ndjson(p, rows)
        r = TlcRun(wd, "LT.tla", "LT.cfg", env={"TRACE": p}, name="lt_" + label, deque=True).run()
        if r.other_error():
            return {"TOOL-ERROR: " + r.other_error()[:200]}
        out = set()
        for l in r.printed("BAD"):
            out |= set(parse_tla_value(l)[2])
        acc = parse_tla_value(r.printed("ACCEPTED")[0])
        if acc[1] != acc[2]:
            out.add("NOT-CONSUMED")
        if acc[3][1]:
            out.add("drift")
        return out
    expect("E2 traces as recorded: accepted, no drift", run(None, "clean"), [])

    def idx(rows, pred, nth=0):
        return [i for i, r in enumerate(rows) if pred(r)][nth]

    def t1(rows):   # the timeout asked for at the second timed poll is 5 ms off
        i = idx(rows, lambda r: r.get("c") == "poll" and r.get("timeout", -1) > 0 and r.get("res") == "timeout", 1)
        rows[i]["timeout"] += 5000
    expect("E2 a poll time-out changed -> C11 schedule clause", run(t1, "timeout"), ["C11-timeout-off-schedule"])

    def t2(rows):   # the second read of the first batch disappears (what a one-event-per-wake-up loop would log)
        i = idx(rows, lambda r: r.get("c") == "kbd" and r.get("res") == "one", 1)
        j = i + 1
        while rows[j]["c"] != "kbd":
            j += 1
        del rows[i:j]
    expect("E2 a read removed -> C10 lost wake-up clause", run(t2, "noread"), ["C10-poll-with-unread-events"])

    def t3(rows):   # a write appears while in tablet mode
        i = idx(rows, lambda r: r.get("c") == "kbd" and r.get("res") == "one" and r["e"] == {"t": "R", "k": "A"})
        rows.insert(i + 1, {"c": "send", "n": 0, "tin": rows[i]["tout"], "tout": rows[i]["tout"], "evs": [{"t": "R", "k": "B"}], "res": "ok", "arrK": [], "arrT": []})
    expect("E2 a write inserted in tablet mode -> C12 clause", run(t3, "tabsend"), ["C12-send-in-tablet-mode"])

    def t4(rows):   # the payload of a mapped step is changed
        i = idx(rows, lambda r: r.get("c") == "send" and r.get("evs") == [{"t": "P", "k": "B"}])
        rows[i]["evs"] = [{"t": "P", "k": "A"}]
    expect("E2 a payload changed -> C10 payload clause", run(t4, "payload"), ["C10-wrong-payload-step"])

    def t5(rows):   # a chord is dropped
        i = idx(rows, lambda r: r.get("c") == "send" and r.get("evs") == [{"t": "P", "k": "C"}, {"t": "R", "k": "C"}])
        del rows[i]
    expect("E2 a chord removed -> C11 missing-chord clause", run(t5, "nochord"), ["C11-chord-missing"])

    def t6(rows):   # after the injected failure the loop is made to go on
        i = idx(rows, lambda r: r.get("res") == "err")
        rows.insert(i + 1, {"c": "poll", "n": 0, "tin": rows[i]["tout"], "tout": rows[i]["tout"], "timeout": -1, "res": "timeout", "devs": [], "arrK": [], "arrT": []})
    expect("E2 a call after the failing call -> C20 clause", run(t6, "afterfail"), ["C20-call-after-failure"])

    def t6b(rows):   # the loop returns another error than the one the driver call failed with
        i = idx(rows, lambda r: r.get("c") == "ret" and not r.get("ok"))
        rows[i]["err"] = "something else went wrong"
        rows[i]["errhas"] = False
    expect("E2 another error returned than the injected one -> C20 clause", run(t6b, "othererr"), ["C20-error-not-returned"])

    def t6c(rows):   # the loop returns the injected error with context added in front: still that error
        i = idx(rows, lambda r: r.get("c") == "ret" and not r.get("ok"))
        rows[i]["err"] = "Mapping failed: " + rows[i]["err"]
    expect("E2 the injected error returned with context added -> accepted", run(t6c, "wrappederr"), [])

    def t7(rows):   # the hook for `send` is "removed": all send lines vanish
        return [r for r in rows if r.get("c") != "send"]
    expect("E2 every send line removed (a hook removed) -> missing-send clauses", run(t7, "nosend"), ["C10-send-missing-step", "C11-chord-missing"])


def sys_level(exe):
    """the same controls one level lower: traces recorded under the REAL driver (system calls scripted), the full-stack start-up, a walk through the loop"""
    wd = workdir("selftest-sys")
    L = lambda a, t="", k="", x="": {"a": a, "t": t, "k": k, "x": x}
    layout = [e2.M(["A"], ["B"]), e2.M(["S"], ["S"], e2.S(["C"]))]
    sched = [L("arrK", "P", "A"), L("arrK", "R", "A"), L("poll", "dev", "", "KT"), L("readK"), L("readK"), L("readK"), L("arrK", "E", ""), L("poll", "dev", "", "KT"), L("readK")]
    su = [L("held", "", "A"), L("gkey"), L("read"), L("poll"), L("arrK", "R", "A"), L("gkey"), L("grab")]
    cp = os.path.join(wd, "cases.ndjson")
    write_ndjson(cp, [{"id": "s", "layout": layout, "sched": sched, "sleep": "no", "faults": 0, "mode": "sys", "noise": 3},
                      {"id": "f", "layout": layout, "sched": sched, "sleep": "no", "faults": 0, "mode": "full", "noise": 1, "su": su}])
    tp = os.path.join(wd, "trace.ndjson")
    run_tmv(exe, ["loop", cp], stdout_path=tp)
    base = read_ndjson(tp)
    for mod, ext, consts in (("LT", "LoopTrace", "MCKnown == {}"), ("ST", "StartupTrace", "")):
        with open(os.path.join(wd, mod + ".tla"), "w") as f:
            f.write("---- MODULE %s ----\nEXTENDS %s\n%s\n====\n" % (mod, ext, consts))
    with open(os.path.join(wd, "LT.cfg"), "w") as f:
        f.write("SPECIFICATION Spec\nCONSTANTS\n  KnownIds <- MCKnown\nPOSTCONDITION Accepted\nCHECK_DEADLOCK FALSE\n")
    with open(os.path.join(wd, "ST.cfg"), "w") as f:
        f.write("SPECIFICATION Spec\nPOSTCONDITION Accepted\nCHECK_DEADLOCK FALSE\n")

    def run(mod, mutate, label):
        rows = copy.deepcopy(base)
        if mutate:
            rows = mutate(rows) or rows
        p = os.path.join(wd, "t_%s.ndjson" % label)
        write_ndjson(p, rows)
        r = TlcRun(wd, mod + ".tla", mod + ".cfg", env={"TRACE": p}, name=mod.lower() + "_" + label, deque=True).run()
        if r.other_error():
            return {"TOOL-ERROR: " + r.other_error()[:200]}
        out = set()
        for l in r.printed("BAD" if mod == "LT" else "SU-BAD"):
            out |= set(parse_tla_value(l)[2])
        acc = parse_tla_value(r.printed("ACCEPTED" if mod == "LT" else "SU-ACCEPTED")[0])
        if acc[1] != acc[2]:
            out.add("NOT-CONSUMED")
        return out
    expect("SYS traces under the real driver / full stack: accepted by LoopTrace", run("LT", None, "clean"), [])
    expect("SYS full-stack start-up as recorded: accepted by StartupTrace", run("ST", None, "clean"), [])

    def idx(rows, pred, nth=0):
        return [i for i, r in enumerate(rows) if pred(r)][nth]

    def s1(rows):   # the write of a step is split in two (what a chunking RealDriver::send would log)
        i = idx(rows, lambda r: r.get("c") == "send" and len(r.get("evs", [])) == 1)
        rows.insert(i + 1, dict(rows[i], evs=[]))
        rows[i]["evs"] = [{"t": "P", "k": "X"}]
    expect("SYS a decoded write changed -> C10 payload clause", run("LT", s1, "payload"), ["C10-wrong-payload-step"])

    def s2(rows):   # the grab is issued although the last snapshot showed a key down (the gkey before it is dropped)
        i = idx(rows, lambda r: r.get("c") == "su" and r.get("k") == "grab")
        del rows[i - 1]
    expect("SYS grab without a quiet snapshot -> start-up clause", run("ST", s2, "grab"), ["SU-grab-although-keys-were-reported-down", "SU-unexpected-call-grab"])

    def s3(rows):   # one key bit is not announced
        i = idx(rows, lambda r: r.get("c") == "su" and r.get("k") == "keybits")
        rows[i]["vals"] = [v for v in rows[i]["vals"] if v != 30]
    expect("SYS a key bit missing in the uinput set-up -> start-up clause", run("ST", s3, "keybit"), ["SU-uinput-key-bits"])

    def s4(rows):   # one byte of uinput_user_dev differs
        i = idx(rows, lambda r: r.get("c") == "su" and r.get("k") == "udev")
        rows[i]["bytes"][80] = 5
    expect("SYS a byte of uinput_user_dev changed -> start-up clause", run("ST", s4, "udev"), ["SU-uinput-user-dev-bytes"])

    # a walk through the real loop, judged by the mapper clauses: one written event is dropped from a step
    jp = os.path.join(wd, "walkjobs.json")
    json.dump({"jobs": [{"id": "w", "layout": layout, "keys": "auto", "maxheld": 3, "steps": 60, "seed": 5, "via": "loop", "noise": 2}]}, open(jp, "w"))
    wp = os.path.join(wd, "walk.ndjson")
    run_tmv(exe, ["walk", jp], stdout_path=wp)
    wbase = read_ndjson(wp)
    with open(os.path.join(wd, "MT.tla"), "w") as f:
        f.write("---- MODULE MT ----\nEXTENDS MapperTrace\nMCProps == {\"C19\", \"RA\"}\nMCKnown == {}\n====\n")
    with open(os.path.join(wd, "MT.cfg"), "w") as f:
        f.write("SPECIFICATION Spec\nCONSTANTS\n  Props <- MCProps\n  KnownIds <- MCKnown\nPOSTCONDITION Accepted\nCHECK_DEADLOCK FALSE\n")

    def runw(mutate, label):
        rows = copy.deepcopy(wbase)
        if mutate:
            mutate(rows)
        p = os.path.join(wd, "w_%s.ndjson" % label)
        write_ndjson(p, rows)
        r = TlcRun(wd, "MT.tla", "MT.cfg", env={"TRACE": p}, name="mt_" + label, deque=True).run()
        if r.other_error():
            return {"TOOL-ERROR: " + r.other_error()[:200]}
        out = set()
        for l in r.printed("BAD"):
            out |= set(parse_tla_value(l)[2])
        if r.printed("DRIFT"):
            out.add("drift")
        return out
    expect("SYS walk through the real loop as recorded: accepted, no drift", runw(None, "clean"), [])

    def w1(rows):   # the loop "forgets" to write a press
        i = idx(rows, lambda r: r.get("c") == "step" and any(e["t"] == "P" for e in r.get("ev", [])))
        rows[i]["ev"] = [e for e in rows[i]["ev"] if e["t"] != "P"]
    expect("SYS a written press dropped from a loop walk -> C19 bookkeeping clause", runw(w1, "nopress"), ["C19-book", "C19"])


def case_judges(exe):
    wd = workdir("selftest-e3")
    # C18: flip one byte of one recorded write
    kpath = os.path.join(wd, "keys.ndjson")
    toolkeys = e3.tool_keys(exe, wd)
    write_ndjson(kpath, toolkeys)
    kc = e3.kernel_codes()
    for k in toolkeys:
        n = k["name"]
        if n not in kc and n[:1] == "K" and n[1:2].isdigit() and n[1:] in kc:
            kc[n] = kc.pop(n[1:])
    codes = os.path.join(wd, "codes.ndjson")
    write_ndjson(codes, [{"name": n, "code": c} for n, c in sorted(kc.items(), key=lambda x: x[1]) if n not in ("RESERVED", "MAX", "CNT")])
    cp = os.path.join(wd, "wcases.ndjson")
    write_ndjson(cp, [{"id": 1, "writes": [{"batch": [{"t": "P", "k": "A"}, {"t": "R", "k": "A"}]}, {"raw": [1, 30, 2]}]}])
    rp = os.path.join(wd, "wres.ndjson")
    run_tmv(exe, ["wire", cp], stdout_path=rp)
    base = read_ndjson(rp)

    def wrun(mutate, label):
        rows = copy.deepcopy(base)
        if mutate:
            mutate(rows)
        p = os.path.join(wd, "w_%s.ndjson" % label)
        write_ndjson(p, rows)
        res = R()
        judged, nt, bad, kn, _ = e3.judge(res, wd, "WireCheck", [p], [], extra_env={"CODES": codes, "KEYS": kpath})
        return {c for _, cl in bad for c in cl} | ({"TOOL-ERROR"} if res.tool_errors else set())
    expect("E3 wire result as recorded: accepted", wrun(None, "clean"), [])

    def w1(rows):
        rows[0]["writes"][0]["bytes"][20] ^= 1       # the value field of the first record
    expect("E3 one recorded byte flipped -> C18 clause", wrun(w1, "byte"), ["C18-bytes"])

    def w2(rows):
        rows[0]["decoded"].append({"t": "P", "k": "A"})   # the reader "returned" the auto-repeat record
    expect("E3 a decoded event added -> C18 clause", wrun(w2, "dec"), ["C18-decoded-count"])
    # C17: one character of the recorded ExecStart line changed
    cp = os.path.join(wd, "scases.ndjson")
    write_ndjson(cp, [{"id": 1, "pats": [[42, 77, 111, 117, 115, 101, 32, 39, 37]]}])
    rp = os.path.join(wd, "sres.ndjson")
    run_tmv(exe, ["svc", cp], stdout_path=rp)
    sbase = read_ndjson(rp)

    def srun(mutate, label):
        rows = copy.deepcopy(sbase)
        if mutate:
            mutate(rows)
        p = os.path.join(wd, "s_%s.ndjson" % label)
        write_ndjson(p, rows)
        res = R()
        judged, nt, bad, kn, _ = e3.judge(res, wd, "SvcCheck", [p], [])
        return {c for _, cl in bad for c in cl} | ({"TOOL-ERROR"} if res.tool_errors else set())
    expect("E3 unit line as recorded: accepted", srun(None, "clean"), [])

    def s1(rows):
        line = rows[0]["line"]
        i = max(j for j, c in enumerate(line) if c == 92)   # the last backslash becomes a letter
        line[i] = 122
    expect("E3 one character of the ExecStart line changed -> C17 clause", srun(s1, "char"), ["C17-pattern-changed", "C17-line-invalid", "C17-argument-count"])


def supervisor(exe):
    """the supervisor runs: a trace recorded from the real do_remapping_loop_auto_all_devices, one recorded call dropped / changed"""
    import subprocess
    ok, why = e3.namespaces_available()
    if not ok:
        log("SKIP supervisor controls: no mount namespace (%s)" % why)
        return
    wd = workdir("selftest-sv")
    L = lambda a, d="", x="": {"a": a, "d": d, "x": x}
    sched = [[L("appear", "k0", "bad"), L("appear", "k1", "ok")], [L("fixperm", "k0")], [L("end", "k1", "err"), L("touch")], [L("vanish", "k0"), L("end", "k0", "ok"), L("appear", "k0", "ok")]]
    p, tp = e3.sv_record(exe, os.path.join(wd, "ns"), [{"id": "sv", "sched": sched}])
    p.communicate(timeout=120)
    base = read_ndjson(tp)
    with open(os.path.join(wd, "SVT.tla"), "w") as f:
        f.write("---- MODULE SVT ----\nEXTENDS SupervisorTrace\n====\n")
    with open(os.path.join(wd, "SVT.cfg"), "w") as f:
        f.write("SPECIFICATION Spec\nPOSTCONDITION Accepted\nCHECK_DEADLOCK FALSE\n")

    def run(mutate, label):
        rows = copy.deepcopy(base)
        if mutate:
            rows = mutate(rows) or rows
        q = os.path.join(wd, "t_%s.ndjson" % label)
        write_ndjson(q, rows)
        r = TlcRun(wd, "SVT.tla", "SVT.cfg", env={"TRACE": q}, name="svt_" + label, deque=True).run()
        if r.other_error():
            return {"TOOL-ERROR: " + r.other_error()[:200]}
        out = set()
        for l in r.printed("SV-BAD"):
            out |= set(parse_tla_value(l)[2])
        acc = parse_tla_value(r.printed("SV-ACCEPTED")[0])
        if acc[1] != acc[2]:
            out.add("NOT-CONSUMED")
        return out
    expect("SUP the real supervisor's trace as recorded: accepted by SupervisorTrace", run(None, "clean"), [])

    def idx(rows, pred, nth=0):
        return [i for i, r in enumerate(rows) if pred(r)][nth]

    def v1(rows):   # the open of k1 in the first round disappears (what a supervisor that stops the round at the failing k0 would log)
        i = idx(rows, lambda r: r.get("c") == "kopen" and r.get("d") == "k1")
        j = idx(rows, lambda r: r.get("c") == "wait", 1)
        del rows[i:j]
    expect("SUP the open of the second keyboard removed -> C16 on this path", run(v1, "noopen"), ["C16-auto-listed-keyboard-not-opened"])

    def v2(rows):   # the excluded keyboard's node is opened
        i = idx(rows, lambda r: r.get("c") == "kopen")
        rows.insert(i, {"c": "kopen", "d": "/dev/input/event2", "res": "foreign", "flags": 2048, "bysup": True})
    expect("SUP an open of the excluded keyboard inserted -> C16 on this path", run(v2, "excluded"), ["C16-auto-device-outside-the-selectable-keyboards-opened"])

    def v3(rows):   # a device that still has its worker is opened again
        i = idx(rows, lambda r: r.get("c") == "created" and r.get("d") == "k1")
        j = idx(rows, lambda r: r.get("c") == "wait", 2)
        rows.insert(j, {"c": "kopen", "d": "k1", "res": "ok", "flags": 2048, "bysup": True})
    expect("SUP a second open of a device that has a worker -> supervisor clause", run(v3, "second"), ["SV-second-worker-for-a-device-path"])

    def v4(rows):   # the run ends after the worker's error
        i = idx(rows, lambda r: r.get("c") == "wend" and r.get("res") == "err")
        del rows[i + 1:-1]
        rows[-1]["left"] = 1
    expect("SUP the supervisor returns after a worker's error -> supervisor clause", run(v4, "stops"), ["SV-supervisor-returned-before-the-device-list-failed"])

    def v5(rows):   # the recorder's own answer is changed: a grab succeeds although the dead worker's descriptor holds it
        i = idx(rows, lambda r: r.get("c") == "grab" and r.get("res") == "ebusy")
        rows[i]["res"] = "ok"
    expect("SUP a grab answer that contradicts the replayed environment -> ENV clause", run(v5, "grab"), ["ENV-grab-answer"])


def fleet(exe):
    """the static fleet: traces recorded from the real do_remapping_loop_all_devices / do_remapping_loop_multiple_devices, one recorded call dropped / inserted / changed"""
    ok, why = e3.namespaces_available()
    if not ok:
        log("SKIP fleet controls: no mount namespace (%s)" % why)
        return
    wd = workdir("selftest-fl")
    nodes = {u[0]: "/dev/input/event%d" % u[5] for u in e3.FL_UNIVERSE}
    cases = [{"id": "fl-all", "mode": "all", "present": ["k0", "k1", "k2"], "bad": [], "ends": [["k2", "err"], ["k0", "ok"], ["k1", "ok"]], "given": []},
             {"id": "fl-files", "mode": "files", "present": ["k0", "k1", "k2"], "bad": [], "ends": [["k1", "ok"], ["k0", "ok"]], "given": ["k0", "k1"],
              "files": [nodes["k0"], nodes["k1"], nodes["x"], nodes["m"], nodes["v"]]},
             {"id": "fl-bad", "mode": "all", "present": ["k0", "k1"], "bad": ["k1"], "ends": [], "given": []}]
    p, tp = e3.fl_record(exe, os.path.join(wd, "ns"), cases)
    p.communicate(timeout=120)
    base = read_ndjson(tp)
    with open(os.path.join(wd, "FLT.tla"), "w") as f:
        f.write("---- MODULE FLT ----\nEXTENDS FleetTrace\n====\n")
    with open(os.path.join(wd, "FLT.cfg"), "w") as f:
        f.write("SPECIFICATION Spec\nPOSTCONDITION Accepted\nCHECK_DEADLOCK FALSE\n")

    def run(mutate, label):
        rows = copy.deepcopy(base)
        if mutate:
            rows = mutate(rows) or rows
        q = os.path.join(wd, "t_%s.ndjson" % label)
        write_ndjson(q, rows)
        r = TlcRun(wd, "FLT.tla", "FLT.cfg", env={"TRACE": q}, name="flt_" + label, deque=True).run()
        if r.other_error():
            return {"TOOL-ERROR: " + r.other_error()[:200]}
        out = set()
        for l in r.printed("FL-BAD"):
            out |= set(parse_tla_value(l)[2])
        acc = parse_tla_value(r.printed("FL-ACCEPTED")[0])
        if acc[1] != acc[2]:
            out.add("NOT-CONSUMED")
        return out
    expect("FLEET the real fleet's traces as recorded: accepted by FleetTrace", run(None, "clean"), [])

    def idx(rows, pred, nth=0):
        return [i for i, r in enumerate(rows) if pred(r)][nth]

    def f1(rows):   # the open of the third keyboard disappears from the --all-keyboards run
        i = idx(rows, lambda r: r.get("c") == "kopen" and r.get("d") == "k2")
        j = idx(rows, lambda r: r.get("c") == "settled")
        del rows[i:j]
    expect("FLEET the open of a listed keyboard removed -> C16 where devices are opened", run(f1, "noopen"), ["C16-fleet-selected-keyboard-not-opened"])

    def f2(rows):   # the excluded keyboard's node is opened in the --dev-file run
        i = idx(rows, lambda r: r.get("c") == "reset" and r.get("id") == "fl-files")
        j = i + idx(rows[i:], lambda r: r.get("c") == "kopen")
        rows.insert(j, {"c": "kopen", "d": nodes["x"], "res": "foreign", "flags": 2048, "bysup": True})
    expect("FLEET an open of the excluded keyboard inserted -> C16 where devices are opened", run(f2, "excluded"), ["C16-fleet-device-outside-the-selected-keyboards-opened", "FL-open-after-a-failed-open"])

    def f3(rows):   # a keyboard that was not given with --dev-file is opened
        i = idx(rows, lambda r: r.get("c") == "reset" and r.get("id") == "fl-files")
        j = i + idx(rows[i:], lambda r: r.get("c") == "settled")
        rows.insert(j, {"c": "kopen", "d": "k2", "res": "ok", "flags": 2048, "bysup": True})
    expect("FLEET an open of a keyboard that was not given inserted -> C16 where devices are opened", run(f3, "notgiven"), ["C16-fleet-device-outside-the-selected-keyboards-opened"])

    def f4(rows):   # the function is seen to return right after the later listed worker failed, while the first listed one still runs
        i = idx(rows, lambda r: r.get("c") == "wend" and r.get("d") == "k2")
        k = idx(rows, lambda r: r.get("c") == "returned")
        r = rows.pop(k)
        rows.insert(i + 1, r)
    expect("FLEET the return moved in front of the earlier workers' ends -> fleet clause", run(f4, "early"), ["FL-returned-while-an-earlier-listed-worker-was-still-running"])

    def f5(rows):   # the worker's error is not returned
        i = idx(rows, lambda r: r.get("c") == "ret")
        rows[i]["res"] = "ok"
    expect("FLEET Ok returned although a worker failed -> fleet clause", run(f5, "okret"), ["FL-worker-error-not-returned"])

    def f6(rows):   # the recorder's own answer is changed: the open of the keyboard that cannot be opened succeeds
        i = idx(rows, lambda r: r.get("c") == "kopen" and r.get("res") == "eacces")
        rows[i]["res"] = "ok"
    expect("FLEET an open answer that contradicts the environment -> ENV clause", run(f6, "openans"), ["ENV-open-answer", "FL-open-failure-not-reported"])


def main():
    exe = build_harness()
    mapper_table(exe)
    loop_traces(exe)
    sys_level(exe)
    case_judges(exe)
    supervisor(exe)
    fleet(exe)
    bad = [o for o in OUT if not o[1]]
    log("selftest: %d controls, %d failed" % (len(OUT), len(bad)))
    return 1 if bad else 0


if __name__ == "__main__":
    sys.exit(main())
