# Shared plumbing of /verif/bin/check: building the recorder, running TLC processes, known
# findings, evidence and replay files, exit codes. No property logic lives here or anywhere in
# the Python/Rust side: every verdict is a TLA+ expression evaluated by TLC.
import json, os, re, shutil, subprocess, sys, time, hashlib, random
from concurrent.futures import ThreadPoolExecutor

ROOT = os.path.dirname(os.path.dirname(os.path.abspath(__file__)))
REPO = os.environ.get("VERIF_REPO", "/repo")
SPEC = os.path.join(ROOT, "spec")
HARNESS = os.path.join(ROOT, "harness")
def _tag():
    return "" if REPO == "/repo" else "-" + hashlib.sha1(REPO.encode()).hexdigest()[:8]


# runs against a scratch copy of the repository (VERIF_REPO=...; used to try seeded changes without touching /repo)
# keep their evidence, replay files and work directories apart from those of the real checks
EVID = os.path.join(ROOT, "evidence") if REPO == "/repo" else os.path.join(ROOT, "work", "alt" + _tag(), "evidence")
REPLAYS = os.path.join(EVID, "replay")
TLA_CP = "/opt/veriftools/tla/tla2tools.jar:/opt/veriftools/tla/CommunityModules-deps.jar"
PROCS = int(os.environ.get("VERIF_PROCS", "16"))


class ToolError(Exception):
    pass


def log(*a):
    print(*a, flush=True)


def seed():
    try:
        return int(os.environ.get("VERIF_SEED", "0"))
    except ValueError:
        return 0


_WORKDIRS = []


def workdir(name):
    d = os.path.join(ROOT, "work", name + _tag())
    shutil.rmtree(d, ignore_errors=True)
    os.makedirs(d)
    _WORKDIRS.append(d)
    return d


def repo_tag():
    return _tag()


def build_harness():
    """cargo build of the recorder against REPO's current working tree (hooks on)."""
    env = dict(os.environ, VERIF_REPO=REPO, CARGO_NET_OFFLINE="true")
    tdir = os.path.join(HARNESS, "target" + repo_tag())
    env["CARGO_TARGET_DIR"] = tdir
    t0 = time.time()
    p = subprocess.run(["cargo", "build", "--release", "--offline"], cwd=HARNESS, env=env,
                       stdout=subprocess.PIPE, stderr=subprocess.STDOUT, text=True, timeout=1800)
    if p.returncode != 0:
        sys.stdout.write(p.stdout[-6000:])
        raise ToolError("building the recorder against %s failed" % REPO)
    exe = os.path.join(tdir, "release", "tmv")
    log("[build] recorder built against %s in %.1fs" % (REPO, time.time() - t0))
    return exe


def run_tmv(exe, args, stdout_path=None, timeout=3600, env=None):
    t0 = time.time()
    out = open(stdout_path, "w") if stdout_path else subprocess.PIPE
    try:
        p = subprocess.run([exe] + args, stdout=out, stderr=subprocess.PIPE, text=True, timeout=timeout,
                           env=dict(os.environ, **(env or {})))
    except subprocess.TimeoutExpired:
        raise ToolError("recorder timed out: tmv %s" % " ".join(args[:2]))
    finally:
        if stdout_path:
            out.close()
    if p.returncode != 0:
        raise ToolError("recorder failed (tmv %s): %s" % (" ".join(args[:2]), (p.stderr or "")[-2000:]))
    return p.stdout if not stdout_path else None


def read_ndjson(path):
    with open(path) as f:
        return [json.loads(l) for l in f if l.strip()]


def write_ndjson(path, rows):
    with open(path, "w") as f:
        for r in rows:
            f.write(json.dumps(r, separators=(",", ":")) + "\n")


# ---------------------------------------------------------------- TLC

def tla_str(s):
    return '"' + s.replace("\\", "\\\\").replace('"', '\\"') + '"'


def tla_set(xs):
    return "{" + ", ".join(tla_str(x) for x in sorted(xs)) + "}"


def tla_seq(xs):
    return "<<" + ", ".join(tla_str(x) for x in xs) + ">>"


class TlcRun:
    def __init__(self, wd, module, cfg, env=None, name="", mem="2g", timeout=3600, workers=1, extra=None, deque=False):
        self.wd, self.module, self.cfg, self.env = wd, module, cfg, env or {}
        self.name, self.mem, self.timeout, self.workers = name or module, mem, timeout, workers
        self.extra = extra or []
        self.deque = deque
        self.out = ""
        self.rc = None
        self.wall = 0.0
        self.cex = None

    def cmd(self):
        meta = os.path.join(self.wd, "meta_" + self.name)
        self.cex_path = os.path.join(self.wd, "cex_" + self.name + ".json")
        tmp = os.path.join(self.wd, "jtmp")          # TLC unpacks its standard modules into java.io.tmpdir on every start: keep that out of /tmp
        os.makedirs(tmp, exist_ok=True)
        jopts = ["-XX:+UseParallelGC", "-XX:ParallelGCThreads=2", "-Xss512m", "-Xmx" + self.mem, "-DTLA-Library=" + SPEC, "-Djava.io.tmpdir=" + tmp]
        if self.deque:
            jopts.append("-Dtlc2.tool.queue.IStateQueue=StateDeque")
        return (["java"] + jopts + ["-cp", TLA_CP, "tlc2.TLC", "-workers", str(self.workers), "-config", self.cfg,
                 "-metadir", meta, "-cleanup", "-noGenerateSpecTE", "-dumpTrace", "json", self.cex_path]
                + self.extra + [self.module])

    def run(self):
        t0 = time.time()
        env = dict(os.environ)
        env.pop("JAVA_TOOL_OPTIONS", None)
        env.update(self.env)
        try:
            p = subprocess.run(self.cmd(), cwd=self.wd, env=env, stdout=subprocess.PIPE, stderr=subprocess.STDOUT,
                               text=True, timeout=self.timeout)
            self.out, self.rc = p.stdout, p.returncode
        except subprocess.TimeoutExpired as e:
            self.out = (e.stdout or b"").decode("utf-8", "replace") if isinstance(e.stdout, bytes) else (e.stdout or "")
            self.rc = -9
        self.wall = time.time() - t0
        with open(os.path.join(self.wd, "tlc_" + self.name + ".out"), "w") as f:
            f.write(self.out)
        if os.path.exists(self.cex_path):
            try:
                self.cex = json.load(open(self.cex_path))
            except Exception:
                self.cex = None
        shutil.rmtree(os.path.join(self.wd, "meta_" + self.name), ignore_errors=True)
        return self

    # ---- parsing
    def timed_out(self):
        return self.rc == -9

    def invariant_violated(self):
        m = re.search(r"Error: Invariant (\w+) is violated", self.out)
        return m.group(1) if m else None

    def other_error(self):
        """An error that is not an invariant violation = tool error."""
        if self.timed_out():
            return "TLC was killed (time-out of %ds, or the kernel's out-of-memory killer) after %.0fs" % (self.timeout, self.wall)
        errs = [l for l in self.out.splitlines() if l.startswith("Error:")]
        errs = [l for l in errs if "Invariant" not in l and "The behavior up to this point" not in l]
        if errs:
            # include some context
            i = self.out.find(errs[0])
            return self.out[i:i + 1500]
        if "Finished in" not in self.out:
            return "TLC did not finish: " + self.out[-1500:]
        return None

    def counts(self):
        m = re.search(r"(\d+) states generated, (\d+) distinct states found", self.out)
        return (int(m.group(1)), int(m.group(2))) if m else (0, 0)

    def printed(self, tag):
        """Values printed by PrintT(<<"tag", ...>>) as text (TLC wraps long values over several lines)."""
        out = []
        lines = self.out.splitlines()
        i = 0
        pat = re.compile(r'^<<\s*"%s"' % re.escape(tag))
        while i < len(lines):
            if pat.match(lines[i]):
                buf = lines[i]
                while not _balanced(buf) and i + 1 < len(lines):
                    i += 1
                    buf += " " + lines[i].strip()
                out.append(buf)
            i += 1
        return out

    def cex_states(self):
        if not self.cex:
            return []
        ce = self.cex.get("counterexample", {})
        st = ce.get("state")
        if st:
            return [s[1] for s in st]
        acts = ce.get("action", [])
        if not acts:
            return []
        return [acts[0][0][1]] + [a[2][1] for a in acts]


def _balanced(text):
    depth, i, instr = 0, 0, False
    while i < len(text):
        c = text[i]
        if instr:
            if c == "\\":
                i += 1
            elif c == '"':
                instr = False
        elif c == '"':
            instr = True
        elif text.startswith("<<", i):
            depth += 1
            i += 1
        elif text.startswith(">>", i):
            depth -= 1
            i += 1
        elif c in "{[(":
            depth += 1
        elif c in "}])":
            depth -= 1
        i += 1
    return depth <= 0 and not instr


def run_tlc_many(runs, procs=None):
    procs = procs or PROCS
    with ThreadPoolExecutor(max_workers=procs) as ex:
        list(ex.map(lambda r: r.run(), runs))
    return runs


def sany(path):
    p = subprocess.run(["java", "-DTLA-Library=" + SPEC, "-cp", TLA_CP, "tla2sany.SANY", path], stdout=subprocess.PIPE,
                       stderr=subprocess.STDOUT, text=True, cwd=os.path.dirname(path))
    ok = p.returncode == 0 and "Semantic errors" not in p.stdout and "Fatal errors" not in p.stdout and "Parse Error" not in p.stdout
    return ok, p.stdout


def parse_tla_value(text):
    """Tiny parser for the TLA+ values TLC prints with PrintT (sets, tuples, records, strings, ints,
    booleans). Sets and tuples become lists, records dicts."""
    pos = [0]
    s = text

    def ws():
        while pos[0] < len(s) and s[pos[0]] in " \t\r\n":
            pos[0] += 1

    def val():
        ws()
        c = s[pos[0]]
        if s.startswith("<<", pos[0]):
            pos[0] += 2
            return seq(">>")
        if c == "{":
            pos[0] += 1
            return seq("}")
        if c == "[":
            pos[0] += 1
            d = {}
            ws()
            if s[pos[0]] == "]":
                pos[0] += 1
                return d
            while True:
                ws()
                m = re.match(r"[A-Za-z_0-9]+", s[pos[0]:])
                k = m.group(0)
                pos[0] += len(k)
                ws()
                assert s.startswith("|->", pos[0]), s[pos[0]:pos[0] + 20]
                pos[0] += 3
                d[k] = val()
                ws()
                if s[pos[0]] == ",":
                    pos[0] += 1
                    continue
                assert s[pos[0]] == "]"
                pos[0] += 1
                return d
        if c == '"':
            i = pos[0] + 1
            out = []
            while s[i] != '"':
                if s[i] == "\\":
                    i += 1
                out.append(s[i])
                i += 1
            pos[0] = i + 1
            return "".join(out)
        m = re.match(r"-?\d+", s[pos[0]:])
        if m:
            pos[0] += len(m.group(0))
            return int(m.group(0))
        m = re.match(r"TRUE|FALSE", s[pos[0]:])
        if m:
            pos[0] += len(m.group(0))
            return m.group(0) == "TRUE"
        raise ValueError("cannot parse TLA value at: " + s[pos[0]:pos[0] + 40])

    def seq(close):
        out = []
        ws()
        if s.startswith(close, pos[0]):
            pos[0] += len(close)
            return out
        while True:
            out.append(val())
            ws()
            if s[pos[0]] == ",":
                pos[0] += 1
                continue
            assert s.startswith(close, pos[0]), s[pos[0]:pos[0] + 20]
            pos[0] += len(close)
            return out

    return val()


# ---------------------------------------------------------------- known findings

def known_findings():
    p = os.path.join(ROOT, "KNOWN_FINDINGS.json")
    if not os.path.exists(p):
        return {"known": [], "fixed": []}
    return json.load(open(p))


def known_ids(prop=None):
    out = []
    for k in known_findings().get("known", []):
        if prop is None or k["property"] == prop:
            out += k.get("clause_ids", [])
    return out


def known_entry_for(clause_id):
    for k in known_findings().get("known", []):
        if clause_id in k.get("clause_ids", []):
            return k
    return None


# ---------------------------------------------------------------- results

class Result:
    """Collects what one check run found; writes evidence; decides the exit code."""

    def __init__(self, prop, tier, level):
        self.prop, self.tier, self.level = prop, tier, level
        self.t0 = time.time()
        self.violations = []      # (clause, replay_path)
        self.known = {}           # finding id -> set of (what)
        self.drift = []
        self.notes = []
        self.coverage = {}
        self.assumptions = []
        self.tool_errors = []
        self.more_violations = 0   # violating cases beyond those for which a replay file was written

    def violation(self, clause, replay_obj):
        os.makedirs(REPLAYS, exist_ok=True)
        n = len(self.violations) + 1
        path = os.path.join(REPLAYS, "%s-%s-%d.json" % (self.prop, self.tier, n))
        replay_obj = dict(replay_obj, property=self.prop, clause=clause)
        with open(path, "w") as f:
            json.dump(replay_obj, f, indent=1)
        self.violations.append((clause, path))
        return path

    def known_hit(self, finding_id, what):
        self.known.setdefault(finding_id, set()).add(what)

    def finish(self):
        # scratch tables and traces are large: drop them once the verdict is in (VERIF_KEEP=1 keeps them for debugging)
        if not os.environ.get("VERIF_KEEP"):
            for wd in _WORKDIRS:
                shutil.rmtree(os.path.join(wd, "tab"), ignore_errors=True)
                shutil.rmtree(os.path.join(wd, "jtmp"), ignore_errors=True)
                for f in os.listdir(wd) if os.path.isdir(wd) else []:
                    fp = os.path.join(wd, f)
                    if os.path.isfile(fp) and os.path.getsize(fp) > 20000000:
                        os.remove(fp)
        wall = time.time() - self.t0
        cov = dict(self.coverage)
        if self.drift:
            cov["drift"] = self.drift[:10]
        if self.notes:
            cov["notes"] = self.notes
        if self.known:
            cov["known_findings_hit"] = {k: sorted(v)[:10] for k, v in self.known.items()}
        if self.tool_errors:
            cov["tool_errors"] = self.tool_errors[:5]
        ev = {"property_id": self.prop, "tier": self.tier, "seed": seed(), "level": self.level,
              "coverage": cov, "assumptions": self.assumptions, "wall_s": round(wall, 1),
              "violations": len(self.violations) + self.more_violations}
        os.makedirs(EVID, exist_ok=True)
        with open(os.path.join(EVID, self.prop + ".json"), "w") as f:
            json.dump(ev, f, indent=1)
        for d in self.drift[:5]:
            log("DRIFT: property=%s %s" % (self.prop, d))
        for fid in sorted(self.known):
            k = [x for x in known_findings()["known"] if x["id"] == fid]
            what = k[0]["what"] if k else ""
            log("KNOWN-FINDING: property=%s %s: %s [%d distinct hits, e.g. %s]" % (self.prop, fid, what, len(self.known[fid]), sorted(self.known[fid])[0]))
        if self.tool_errors:
            for e in self.tool_errors[:3]:
                log("TOOL-ERROR: " + e)
            log("RESULT property=%s tier=%s: tool error (no verdict) in %.1fs" % (self.prop, self.tier, wall))
            return 2
        if self.violations:
            for clause, path in self.violations[:20]:
                log("VIOLATION property=%s replay=%s clause=%s" % (self.prop, path, clause))
            log("RESULT property=%s tier=%s: %d violation(s) in %.1fs" % (self.prop, self.tier, len(self.violations) + self.more_violations, wall))
            return 1
        log("RESULT property=%s tier=%s: held on everything explored (%.1fs)" % (self.prop, self.tier, wall))
        return 0


def det_rng(*parts):
    """Deterministic RNG for the tier-independent selection (never depends on VERIF_SEED)."""
    h = hashlib.sha256(("|".join(str(p) for p in parts)).encode()).digest()
    return random.Random(int.from_bytes(h[:8], "big"))
