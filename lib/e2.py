# Engine E2: loop traces. TLC enumerates behaviours of spec/Loop.tla (loop + environment) and prints the
# environment's choices of every finished behaviour as a schedule -> `tmv loop` runs the REAL
# do_remapping_loop_one_device under a scripted driver that follows each schedule and records every driver call
# -> TLC validates the recorded traces against spec/LoopTrace.tla (environment replay + property monitors +
# conformance with LoopCore). Python moves files and formats what TLC printed.
import json, os, re, time, subprocess
from concurrent.futures import ThreadPoolExecutor
from common import *

N = {"kind": "Normal"}
D = {"kind": "Disabled"}


def S(keys, delay=6, interval=3):
    return {"kind": "Special", "keys": list(keys), "delay": delay, "interval": interval}


def M(f, t, r=N, a=()):
    return {"from": list(f), "to": list(t), "repeat": r, "absorbing": list(a)}


LAYOUTS = {
    "basic": [M(["A"], ["B"]), M(["S"], ["S"], S(["C"]))],
    "chord": [M(["K"], ["T"], S(["LEFTCTRL", "F20"])), M(["A"], ["LEFTSHIFT", "B"])],          # repeat keys overlapping a held key (super-dvorak's K)
    "norep": [M(["A"], ["A"], D), M(["LEFTSHIFT", "A"], ["X"]), M(["S"], ["LEFTSHIFT", "S"], S(["LEFTSHIFT", "C", "D"], 4, 2))],
    "empty-chord": [M(["S"], ["S"], S([], 5, 2)), M(["A"], ["B"], S(["B"], 5, 2))],
    "absorb": [M(["C", "A"], ["X"], N, ["C"]), M(["C", "B"], ["Y"], D), M(["C"], [])],
    # two mappings sharing an output modifier, the second with a Special repeat that names it: rolling from A to S releases and re-presses LEFTSHIFT in ONE write
    "rollover": [M(["A"], ["LEFTSHIFT", "B"]), M(["S"], ["LEFTSHIFT", "S"], S(["LEFTSHIFT", "C"], 4, 2))],
    # a chord that keeps its own modifier (every capital letter of super-dvorak has this shape)
    "shiftchord": [M(["LEFTSHIFT", "A"], ["LEFTSHIFT", "B"]), M(["S"], ["S"], S(["C"]))],
    # no mappings: everything passes through (many keys held at once)
    "passthru": [],
    # a key that a no-repeat mapping taps (pressed and released in ONE write) is also the repeat key of another mapping
    "tapchord": [M(["A"], ["C"], D), M(["B"], ["D"], S(["C"], 4, 2))],
    # boundary values of the repeat timing: no delay, no interval, a long delay
    "zerorep": [M(["B"], ["D"], S(["C"], 0, 1)), M(["A"], ["A"], S(["C", "E"], 1, 0)), M(["S"], ["S"], S(["C"], 1000000, 1000000))],
    # two triggers whose Special repeats name the SAME chord with different timings: the second firing must start its own delay
    "twodelay": [M(["B"], ["B"], S(["C"], 4, 2)), M(["D"], ["D"], S(["C"], 40, 7)), M(["A"], ["A"], S(["C"], 4, 2))],
}
# a burst of nine different keys going down at once (then e.g. the tablet switch turns on: one release batch of nine events)
NINE = ["P:1", "P:2", "P:3", "P:4", "P:5", "P:6", "P:7", "P:8", "P:9"]


# larger bursts: seventeen and sixty-five different keys going down at once (writers or loops that cut batches into pieces of 16, 63 or 64 records)
_MANY = [str(d) for d in range(1, 10)] + ["0"] + list("QWERTYUIOPASDFGHJKLZXCVBNM") + ["F%d" % i for i in range(1, 25)] + ["MINUS", "EQUAL", "TAB", "ENTER", "SPACE"]
SEVENTEEN = ["P:" + k for k in _MANY[:17]]
SIXTYFIVE = ["P:" + k for k in _MANY[:65]]


def ev(s):
    return {"t": s[0], "k": s[2:]}


# (layout, key events, MaxArrivals, MaxTablet, MaxTimeouts, MaxIntr)
GEN = {
    ("C10", "quick"): [("basic", ["P:A", "R:A"], 3, 1, 1, 0), ("basic", ["P:A", "R:A"], 3, 0, 1, 1), ("basic", ["P:A", "R:A", "P:S"], 4, 0, 0, 0),
                       ("norep", ["P:LEFTSHIFT", "P:A", "R:A"], 3, 0, 0, 1), ("absorb", ["P:C", "P:A", "P:B"], 3, 0, 0, 0),
                       ("basic", ["P:A", "P:S"], 1, 1, 0, 0, 20), ("basic", ["P:A", "R:A"], 1, 0, 1, 0, 40), ("passthru", ["R:1"], 1, 1, 0, 0, NINE)],
    ("C10", "thorough"): [("basic", ["P:A", "R:A", "P:S"], 3, 1, 1, 1), ("basic", ["P:A", "R:A"], 4, 1, 1, 0), ("basic", ["P:A", "R:A", "P:S", "R:S"], 5, 0, 0, 0),
                          ("norep", ["P:LEFTSHIFT", "P:A", "R:A", "P:S"], 4, 0, 1, 1), ("absorb", ["P:C", "P:A", "P:B", "R:C"], 4, 0, 0, 0),
                          ("chord", ["P:LEFTCTRL", "P:K", "P:A"], 3, 1, 1, 0), ("basic", ["P:A", "P:S"], 2, 1, 0, 0, 20), ("basic", ["P:A", "R:A"], 1, 0, 1, 1, 70),
                          ("norep", ["P:LEFTSHIFT", "P:A"], 2, 0, 0, 0, 33)],
    ("C11", "quick"): [("tapchord", ["P:A", "R:A", "P:B"], 3, 0, 2, 0), ("rollover", ["P:A", "P:S", "R:A"], 3, 0, 2, 0), ("basic", ["P:S", "R:S"], 3, 1, 2, 0), ("chord", ["P:LEFTCTRL", "P:K", "R:K"], 3, 0, 2, 0), ("empty-chord", ["P:S", "P:A", "P:B"], 3, 0, 2, 0),
                       ("norep", ["P:LEFTSHIFT", "P:S", "P:D"], 3, 0, 2, 0), ("twodelay", ["P:B", "P:D", "P:A"], 2, 0, 3, 0),
                       # a signal in the middle of a timed wait
                       ("basic", ["P:S", "R:S"], 2, 0, 2, 1)],
    ("C11", "thorough"): [("rollover", ["P:A", "P:S", "R:A", "R:S"], 4, 0, 3, 0), ("basic", ["P:S", "R:S", "P:A"], 3, 1, 3, 0), ("chord", ["P:LEFTCTRL", "P:K", "R:K", "R:LEFTCTRL"], 4, 0, 2, 0), ("chord", ["P:LEFTCTRL", "P:K"], 2, 2, 2, 0),
                          ("empty-chord", ["P:S", "P:A", "P:B", "R:B"], 4, 0, 2, 0), ("norep", ["P:LEFTSHIFT", "P:S", "P:D", "R:LEFTSHIFT"], 4, 0, 2, 0),
                          ("basic", ["P:S", "P:S", "R:S"], 3, 0, 4, 1), ("twodelay", ["P:B", "P:D", "P:A", "R:B"], 3, 0, 3, 0)],
    ("C12", "quick"): [("shiftchord", ["P:LEFTSHIFT", "P:A", "R:LEFTSHIFT"], 3, 1, 0, 0), ("passthru", ["R:1"], 1, 1, 0, 0, NINE), ("basic", ["P:A", "R:A"], 2, 2, 0, 0), ("basic", ["P:S"], 1, 2, 2, 0), ("chord", ["P:LEFTCTRL", "P:K"], 2, 1, 1, 0), ("basic", ["P:A", "R:A"], 3, 1, 0, 0)],
    # (two arrivals AND two tablet events around the nine-key burst take TLC the better part of an hour to enumerate: one arrival there)
    ("C12", "thorough"): [("shiftchord", ["P:LEFTSHIFT", "P:A", "R:LEFTSHIFT", "R:A"], 3, 2, 0, 0), ("passthru", ["R:1"], 1, 2, 0, 0, NINE), ("basic", ["P:A", "R:A"], 3, 2, 0, 0), ("basic", ["P:S", "R:S"], 2, 2, 2, 0), ("chord", ["P:LEFTCTRL", "P:K", "R:LEFTCTRL"], 2, 2, 1, 0),
                          ("basic", ["P:A", "R:A"], 2, 3, 0, 0), ("norep", ["P:LEFTSHIFT", "P:A", "R:LEFTSHIFT"], 2, 2, 1, 0)],
    ("C20", "quick"): [("basic", ["P:A", "P:S"], 2, 1, 1, 0), ("chord", ["P:LEFTCTRL", "P:K"], 2, 1, 1, 0), ("passthru", ["R:1"], 1, 1, 0, 0, NINE), ("passthru", ["R:1"], 1, 1, 0, 0, SEVENTEEN)],
    ("C20", "thorough"): [("passthru", ["R:1", "P:A"], 2, 1, 0, 0, NINE), ("passthru", ["R:1"], 1, 1, 0, 0, SEVENTEEN), ("basic", ["P:A", "R:A", "P:S"], 3, 1, 1, 1), ("chord", ["P:LEFTCTRL", "P:K", "R:K"], 3, 1, 2, 0), ("norep", ["P:LEFTSHIFT", "P:A", "P:S"], 3, 1, 1, 0)],
}
# C06 at the loop (see ALIAS): a running repeat, held keys and chords across tablet-mode changes
GEN[("C06", "quick")] = [("basic", ["P:S"], 1, 2, 2, 0), ("shiftchord", ["P:LEFTSHIFT", "P:A", "R:LEFTSHIFT"], 3, 1, 0, 0), ("chord", ["P:LEFTCTRL", "P:K"], 2, 1, 1, 0)]
GEN[("C06", "thorough")] = GEN[("C12", "thorough")]
_C06_BURSTS = lambda: [("passthru", ["R:1"], 1, 0, 0, 0, SHIFT_BURST), ("passthru", ["R:1"], 1, 0, 0, 0, SEVENTEEN_TAP), ("basic", ["P:A", "R:A", "P:Z"], 3, 0, 0, 0)]
# C01 at the loop (see ALIAS): many events per notification (a loop that stops reading early leaves the releases unread), tablet events and key events in one wake-up
# (seventeen keys go down and up again in ONE arrival: whatever stops reading after 16 events has read only presses)
SEVENTEEN_TAP = SEVENTEEN + ["R:" + k for k in _MANY[:17]]
GEN[("C01", "quick")] = [("basic", ["P:A", "P:S"], 1, 1, 0, 0, 20), ("basic", ["P:A", "R:A"], 3, 1, 0, 0), ("passthru", ["R:1"], 1, 1, 0, 0, NINE), ("passthru", ["R:1"], 1, 0, 0, 0, SEVENTEEN_TAP)]
GEN[("C01", "thorough")] = GEN[("C01", "quick")] + [("basic", ["P:A", "R:A"], 1, 0, 1, 1, 70), ("norep", ["P:LEFTSHIFT", "P:A"], 2, 0, 0, 0, 33), ("basic", ["P:A", "R:A"], 3, 2, 0, 0)]
# C09 at the loop (see ALIAS): several events in one wake-up, the last of them ignored by the mapper (duplicate press, release of a key that is not held);
# a second Special firing that names the chord already repeating, with its own timings
GEN[("C09", "quick")] = [("basic", ["P:S", "R:S", "R:A"], 3, 0, 2, 0), ("twodelay", ["P:B", "P:D", "P:A"], 2, 0, 3, 0)]
GEN[("C09", "thorough")] = [("basic", ["P:S", "R:S", "R:A", "P:A"], 4, 0, 2, 0), ("twodelay", ["P:B", "P:D", "P:A", "R:B"], 3, 0, 3, 0), ("norep", ["P:LEFTSHIFT", "P:S", "P:S", "R:D"], 4, 0, 2, 0)]
# C02 and C19 at the loop: what is down on the device (the fold of the writes that succeeded), with injected write failures
GEN[("C02", "quick")] = [("basic", ["P:A", "R:A", "P:Z"], 3, 0, 0, 0), ("shiftchord", ["P:LEFTSHIFT", "P:A", "R:LEFTSHIFT"], 3, 1, 0, 0)]
GEN[("C02", "thorough")] = [("basic", ["P:A", "R:A", "P:Z", "R:Z"], 4, 1, 0, 0), ("shiftchord", ["P:LEFTSHIFT", "P:A", "R:LEFTSHIFT", "R:A"], 4, 1, 0, 0), ("norep", ["P:LEFTSHIFT", "P:A", "R:A"], 3, 0, 0, 0)]
# ... and bursts: a modifier goes down, eight keys are tapped, the modifier goes up - eighteen events in ONE arrival (whatever stops reading after 16 events
# leaves the modifier's release unread and the modifier down on the device while nothing is physically held); seventeen keys tapped in one arrival
SHIFT_BURST = ["P:LEFTSHIFT"] + [x for k in _MANY[:8] for x in ("P:" + k, "R:" + k)] + ["R:LEFTSHIFT"]
GEN[("C02", "quick")] += [("passthru", ["R:1"], 1, 0, 0, 0, SHIFT_BURST), ("passthru", ["R:1"], 1, 0, 0, 0, SEVENTEEN_TAP)]
GEN[("C02", "thorough")] += [("passthru", ["R:1"], 1, 0, 0, 0, SHIFT_BURST), ("passthru", ["R:1"], 1, 0, 0, 0, SEVENTEEN_TAP), ("shiftchord", ["R:1"], 1, 1, 0, 0, SHIFT_BURST)]
# C03, C04, C05, C07, C08 at the device (see ALIAS, DELIVERY): the statements are about every key event of every history - "when a key goes down", "press -> press,
# release -> release" - so an event the loop has been notified about and leaves unread, or a step whose output never reaches the device, breaks them for the user
# whatever the mapper would have answered. Bursts, and a few short histories with every batching.
GEN[("C05", "quick")] = [("passthru", ["R:1"], 1, 0, 0, 0, SHIFT_BURST), ("passthru", ["R:1"], 1, 0, 0, 0, SEVENTEEN_TAP), ("basic", ["P:Z", "R:Z", "P:A"], 3, 0, 0, 1)]
GEN[("C05", "thorough")] = GEN[("C05", "quick")] + [("basic", ["P:Z", "R:Z", "P:A", "R:A"], 4, 1, 0, 1)]
GEN[("C03", "quick")] = [("shiftchord", ["R:1"], 1, 0, 0, 0, SHIFT_BURST), ("shiftchord", ["P:LEFTSHIFT", "P:A", "R:LEFTSHIFT"], 3, 0, 0, 1)]
GEN[("C03", "thorough")] = GEN[("C03", "quick")] + [("shiftchord", ["P:LEFTSHIFT", "P:A", "R:LEFTSHIFT", "R:A"], 4, 1, 0, 1)]
GEN[("C04", "quick")] = GEN[("C03", "quick")]
GEN[("C04", "thorough")] = GEN[("C03", "thorough")]
GEN[("C07", "quick")] = [("norep", ["R:1"], 1, 0, 0, 0, SHIFT_BURST), ("norep", ["P:LEFTSHIFT", "P:A", "R:A"], 3, 0, 0, 1)]
GEN[("C07", "thorough")] = GEN[("C07", "quick")] + [("norep", ["P:LEFTSHIFT", "P:A", "R:A", "P:S"], 4, 0, 0, 1)]
GEN[("C08", "quick")] = [("absorb", ["R:1"], 1, 0, 0, 0, SHIFT_BURST), ("absorb", ["P:C", "P:A", "P:B"], 3, 0, 0, 1)]
GEN[("C08", "thorough")] = GEN[("C08", "quick")] + [("absorb", ["P:C", "P:A", "P:B", "R:C"], 4, 0, 0, 1)]
GEN[("C06", "quick")] = GEN[("C06", "quick")] + _C06_BURSTS()
GEN[("C06", "thorough")] = GEN[("C06", "thorough")] + _C06_BURSTS()
GEN[("C19", "quick")] = GEN[("C02", "quick")]
GEN[("C19", "thorough")] = GEN[("C02", "thorough")]
# C14 at the loop (see ALIAS): boundary repeat timings with timer expiries
# (negative timings are left out: with a negative delay the loop asks for a time-out of 2^64 - 5 ms, i.e. never repeats; not a panic, and outside what C11 quantifies over)
GEN[("C14", "quick")] = [("zerorep", ["P:B", "P:A", "R:B"], 2, 0, 2, 0)]
GEN[("C14", "thorough")] = [("zerorep", ["P:B", "P:A", "R:B"], 3, 1, 3, 0)]
# C18 at the real driver (see ALIAS): large batches - nine keys released at once by the tablet switch, bursts of pass-through events
GEN[("C18", "quick")] = [("passthru", ["R:1"], 1, 1, 0, 0, NINE), ("basic", ["P:A", "R:A"], 1, 1, 0, 0, 20)]
# (two arrivals around a 40-event burst, or two tablet events around a nine-key burst, take TLC the better part of an hour to enumerate: one of each)
GEN[("C18", "thorough")] = [("passthru", ["R:1", "P:A"], 2, 1, 0, 0, NINE), ("basic", ["P:A", "R:A"], 1, 1, 0, 0, 40), ("passthru", ["R:1"], 1, 1, 0, 0, SEVENTEEN)]
# random (simulated) behaviours at larger bounds
SIM = {
    "C10": [("basic", ["P:A", "R:A", "P:S", "R:S"], 6, 1, 1, 1), ("absorb", ["P:C", "P:A", "R:A", "P:B", "R:C"], 6, 1, 0, 1)],
    "C11": [("basic", ["P:S", "R:S", "P:A"], 5, 2, 4, 0), ("norep", ["P:LEFTSHIFT", "P:S", "R:S", "P:D", "R:LEFTSHIFT"], 6, 1, 4, 0), ("chord", ["P:LEFTCTRL", "R:LEFTCTRL", "P:K", "R:K"], 5, 1, 4, 0)],
    "C12": [("basic", ["P:S", "R:S", "P:A", "R:A"], 6, 3, 2, 0), ("absorb", ["P:C", "R:C", "P:A", "P:B"], 6, 3, 0, 0), ("chord", ["P:LEFTCTRL", "P:K", "R:K", "R:LEFTCTRL"], 5, 3, 2, 0)],
    "C20": [("basic", ["P:A", "R:A", "P:S"], 4, 2, 2, 1)],
    "C06": [],
    "C18": [],
    "C01": [],
    "C14": [],
    "C09": [],
    "C02": [],
    "C19": [],
    "C03": [], "C04": [], "C05": [], "C07": [], "C08": [],
}
# properties whose loop-level runs include injected failures (what is down on the device after a write failure that the loop survives)
FAULT_PROPS = ("C01", "C02", "C06", "C12", "C19")
INVARIANTS = ["NoLostWakeup", "SendsAreMapperOutputs", "QuietInTabletMode", "HeldMatches", "ReleasedInTablet", "ChordsAreTransient", "StopsOnFailure", "EmitSchedule"]
# registers of LoopTrace that must be non-zero for a run of the property to be non-vacuous
NEED = {"C03": [4, 8], "C04": [4, 8], "C05": [4, 8], "C07": [4, 8], "C08": [4, 8], "C10": [4, 8], "C11": [3, 6], "C12": [5, 9, 10], "C20": [7], "C06": [5, 10], "C18": [4, 5], "C01": [4, 8], "C14": [4], "C09": [3, 6], "C02": [4, 7], "C19": [4, 7]}
REGS = ["traces", "drifts", "chords_judged", "step_sends_judged", "releaseall_sends_judged", "timed_polls_judged", "failing_calls_judged",
        "polls_with_unread_events_queued", "key_events_read_in_tablet_mode", "tablet_on_with_keys_held"]


def tla_layout(layout):
    def seq(xs):
        return "<<" + ", ".join(tla_str(x) for x in xs) + ">>"

    def rep(r):
        if r["kind"] == "Special":
            return '[kind |-> "Special", keys |-> %s, delay |-> %d, interval |-> %d]' % (seq(r["keys"]), r["delay"], r["interval"])
        return '[kind |-> "%s"]' % r["kind"]
    return "<<" + ", ".join("[from |-> %s, to |-> %s, repeat |-> %s, absorbing |-> %s]" % (seq(m["from"]), seq(m["to"]), rep(m["repeat"]), seq(m["absorbing"])) for m in layout) + ">>"


def gen_run(wd, idx, cfg, workers, simulate=None):
    burst = 0
    if len(cfg) == 7:
        burst = cfg[6]
        cfg = cfg[:6]
    lname, kevs, ma, mt, mto, mi = cfg
    mod = "LG%d" % idx
    with open(os.path.join(wd, mod + ".tla"), "w") as f:
        if isinstance(burst, list):
            bseq = ", ".join('[t |-> "%s", k |-> "%s"]' % (e[0], e[2:]) for e in burst)
        else:
            # a burst alternates presses and releases of the first two keys of the alphabet
            bk = [kevs[0][2:], kevs[-1][2:]]
            bseq = ", ".join('[t |-> "%s", k |-> "%s"]' % ("PR"[(i // 2) % 2], bk[i % 2]) for i in range(burst))
        f.write("---- MODULE %s ----\nEXTENDS Loop\nMCLayout == %s\nMCKeyEvents == {%s}\nMCBurst == <<%s>>\n====\n"
                % (mod, tla_layout(LAYOUTS[lname]), ", ".join('[t |-> "%s", k |-> "%s"]' % (e[0], e[2:]) for e in kevs), bseq))
    with open(os.path.join(wd, mod + ".cfg"), "w") as f:
        f.write("SPECIFICATION Spec\nCONSTANTS\n  Layout <- MCLayout\n  KeyEvents <- MCKeyEvents\n  MaxArrivals = %d\n  MaxTablet = %d\n  MaxTimeouts = %d\n  MaxIntr = %d\n  FaultAt = 0\n  Emit = TRUE\n  Burst <- MCBurst\n"
                % (ma, mt, mto, mi))
        for inv in INVARIANTS:
            f.write("INVARIANT %s\n" % inv)
        f.write("CHECK_DEADLOCK FALSE\n")
    extra = ["-simulate", "num=%d" % simulate[0], "-depth", str(simulate[1])] if simulate else []
    return TlcRun(wd, mod + ".tla", mod + ".cfg", name=mod, workers=workers, mem="4g", timeout=3000, extra=extra)


def schedules_of(run):
    out = []
    for line in run.out.splitlines():
        if line.startswith('<<"SCHEDULE"'):
            m = re.match(r'<<"SCHEDULE", "(.*)">>$', line.strip())
            out.append(json.loads(json.loads('"' + m.group(1) + '"')))
    return out


def generate(res, wd, prop, tier):
    cfgs = GEN[(prop, tier)]
    # a configuration with a very large burst (65 events in one arrival) is explored by simulation: its behaviours are long (one read per event) and
    # it is there for the size of the batches, not for the interleavings
    def big(c):
        return len(c) > 6 and isinstance(c[6], list) and len(c[6]) > 40
    runs = [gen_run(wd, i, c, 4 if not big(c) else 1, simulate=(120, 600) if big(c) else None) for i, c in enumerate(cfgs)]
    for r, c in zip(runs, cfgs):
        if big(c):
            r.extra += ["-seed", "11"]
    sims = []
    # longer random behaviours of the same specification (TLC -simulate): histories of up to 6 events with up to 3 tablet events and 3 time-outs,
    # beyond what is enumerated exhaustively. The quick tier uses a fixed seed (its verdict never varies), the thorough tier VERIF_SEED.
    simcfgs = SIM[prop]
    for i, c in enumerate(simcfgs):
        r = gen_run(wd, 100 + i, c, 1, simulate=(1500 if tier == "quick" else 12000, 90))
        r.extra += ["-seed", str(7 + i if tier == "quick" else 1000 * seed() + i)]
        sims.append(r)
    t0 = time.time()
    run_tlc_many(runs + sims, procs=4)
    gen = dist = 0
    cases = []
    for r, c in zip(runs + sims, cfgs + simcfgs):
        err = r.other_error()
        if r.invariant_violated():
            res.tool_errors.append("design-level invariant %s of Loop.tla is violated in configuration %s (the specification itself is wrong): see %s" % (r.invariant_violated(), c, r.name))
            continue
        if err and r not in sims and not big(c):
            res.tool_errors.append("%s: %s" % (r.name, err))
            continue
        g, d = r.counts()
        gen, dist = gen + g, dist + d
        seen = set()
        mine = []
        for s in schedules_of(r):
            key = json.dumps(s)
            if key in seen:
                continue
            seen.add(key)
            mine.append({"id": "%s-%d" % (r.name, len(seen)), "lname": c[0], "layout": LAYOUTS[c[0]], "sched": s, "sleep": "no", "faults": 0})
        # a very large burst is there for the size of the batches, not for where the tablet event falls among its 65 reads: an even sample of its schedules
        if len(c) > 6 and isinstance(c[6], list) and len(c[6]) > 40 and len(mine) > 150:
            mine = mine[::len(mine) // 150][:150]
        cases += mine
    log("[tlc] Loop.tla: %d configurations model-checked (%d states, %d distinct), %d schedules, %.1fs" % (len(runs), gen, dist, len(cases), time.time() - t0))
    return cases, gen, dist


def walk_traces(exe, wd, prop, tier):
    """Long random histories (the walks of the mapper checks: ill-formed events, resets with key activity during tablet mode) over many small
    layouts, taken through the real loop and driver at the system-call level and written as call traces for LoopTrace.tla: the loop monitors
    (sends = the mapper's answers; fresh after tablet mode; nothing held at tablet-on) beyond the handful of layouts Loop.tla enumerates schedules for."""
    import families as F
    thorough = tier == "thorough"
    n = 120 if not thorough else 600
    jobs = []
    fam = F.small_family("lw", F.anyl, 1, 60 if not thorough else 600, None, 0, 0, ones=False)[:n // 2] + \
        F.small_family("lwabs", F.has_abs, 1, 60 if not thorough else 600, None, 0, 0, ones=False)[:n // 4] + F.abs_cross(every=9 if not thorough else 2)[:n // 4]
    sd = 0 if not thorough else seed()
    for i, j in enumerate(fam):
        jobs.append({"id": "LW-%s" % j["id"], "layout": j["layout"], "keys": "auto", "maxheld": 4 + i % 2, "steps": 200 if not thorough else 400, "seed": 1000 * sd + i,
                     "via": "loop", "out": "looptrace", "noise": i % 4, "ra_pct": 4 if prop in ("C12", "C06") else 2,
                     # every second history with several events per wake-up and interrupted waits (harness/src/looprun.rs: walk_run)
                     "wake": (1 + i) if (i // 4) % 2 == 1 else 0})
    traces = []
    nch = max(1, min(PROCS, len(jobs) // 8))
    for i in range(nch):
        jp = os.path.join(wd, "lwjobs_%d.json" % i)
        json.dump({"jobs": jobs[i::nch]}, open(jp, "w"))
        tp = os.path.join(wd, "lwtrace_%d.ndjson" % i)
        run_tmv(exe, ["walk", jp], stdout_path=tp)
        traces.append(tp)
    return jobs, traces


# hand-written scenarios in the label language of Loop.tla (data): histories that are too long for exhaustive enumeration, one event per wake-up
SCENARIOS = {
    # a key tapped inside one write, a tablet episode, then a repeat whose chord is that key
    "C06": [("tapchord", "P:A R:A On Off P:B to to R:B"), ("tapchord", "P:A R:A On P:Z Off P:B to to"), ("tapchord", "P:B to R:B P:A R:A Off P:B to to")],
    # ... and a pass-through key that a Special mapping lifted is released while the repeat runs; a key an active mapping outputs is pressed
    "C11": [("tapchord", "P:A R:A P:B to to R:B P:A R:A P:B to"), ("basic", "P:Z P:S to R:Z to to"), ("basic", "P:Z P:S to to R:S to R:Z"), ("basic", "P:A P:S to P:B to to"),
            ("zerorep", "P:B to to to R:B"), ("zerorep", "P:A to to R:A P:B to"), ("zerorep", "P:S to R:S P:B to to"),
            ("twodelay", "P:B to P:D to to R:D"), ("twodelay", "P:B to to P:A to P:D to")],
    "C09": [("twodelay", "P:B to P:D to to R:D"), ("twodelay", "P:B to to P:A to P:D to"), ("basic", "P:S to R:A to P:S to R:S")],
    "C12": [("tapchord", "P:A R:A On Off P:B to to R:B")],
    "C14": [("zerorep", "P:B to to to R:B"), ("zerorep", "P:A to to R:A P:B to")],
}


def scenario_cases(prop):
    L = lambda a, t="", k="", x="": {"a": a, "t": t, "k": k, "x": x}
    out = []
    for i, (lname, text) in enumerate(SCENARIOS.get(prop, [])):
        # (a time-out that is really slept through must be short: the 1000 s delay of `zerorep` is only ever answered at once)
        modes = ("no",) if (lname == "zerorep" and "P:S" in text) else ("no", "yes")
        sched = []
        for tok in text.split():
            if tok in ("On", "Off"):
                sched += [L("arrT", tok), L("poll", "dev", "", "KT"), L("readT"), L("readT")]
            elif tok == "to":
                sched += [L("poll", "timeout", "", "timed")]
            else:
                sched += [L("arrK", tok[0], tok[2:]), L("poll", "dev", "", "KT"), L("readK"), L("readK")]
        sched += [L("arrK", "E"), L("poll", "dev", "", "KT"), L("readK")]
        for mode in modes:
            out.append({"id": "SCN-%s-%d-%s" % (prop, i, mode), "lname": lname, "layout": LAYOUTS[lname], "sched": sched, "sleep": mode, "faults": 0})
    return out


def big_batch_cases():
    """Hand-written schedules in the label language of Loop.tla (data, like the sleep/fault variants): n keys go down in one arrival and are read, then the
    tablet switch turns on - the release-all is ONE batch of n events (n = 17, 64, 65: writers or loops that cut batches at 16, 63 or 64 records) -
    then it turns off and the device goes away. TLC-simulated behaviours of the same configuration rarely take this order."""
    L = lambda a, t="", k="", x="": {"a": a, "t": t, "k": k, "x": x}
    out = []
    for n in (17, 64, 65):
        sched = [L("arrK", "P", k) for k in _MANY[:n]] + [L("poll", "dev", "", "KT")] + [L("readK") for _ in range(n + 1)] + \
                [L("arrT", "On"), L("poll", "dev", "", "KT"), L("readT"), L("readT"), L("arrT", "Off"), L("poll", "dev", "", "KT"), L("readT"), L("readT"),
                 L("arrK", "E"), L("poll", "dev", "", "KT"), L("readK")]
        out.append({"id": "BIG-%d" % n, "lname": "passthru", "layout": LAYOUTS["passthru"], "sched": sched, "sleep": "no", "faults": 0})
    return out


def record_and_validate(res, exe, wd, cases, prop, extra_traces=()):
    """-> (lines, counters, bad [(trace id, clauses)], known, accepted_traces)"""
    nchunks = max(1, min(PROCS, len(cases) // 50 or 1)) if cases else 0
    chunks = [cases[i::nchunks] for i in range(nchunks)]
    t0 = time.time()

    def rec(i):
        cp = os.path.join(wd, "cases_%d.ndjson" % i)
        write_ndjson(cp, [{k: c[k] for k in ("id", "layout", "sched", "sleep", "faults", "mode", "noise", "werr", "su") if k in c} for c in chunks[i]])
        tp = os.path.join(wd, "trace_%d.ndjson" % i)
        run_tmv(exe, ["loop", cp], stdout_path=tp)
        return tp
    with ThreadPoolExecutor(max_workers=PROCS) as ex:
        traces = list(ex.map(rec, range(nchunks)))
    traces += list(extra_traces)
    nlines = sum(sum(1 for _ in open(t)) for t in traces)
    log("[record] the real loop under %d schedules: %d trace lines, %.1fs" % (len(cases), nlines, time.time() - t0))
    with open(os.path.join(wd, "LT.tla"), "w") as f:
        f.write("---- MODULE LT ----\nEXTENDS LoopTrace\nMCKnown == %s\n====\n" % tla_set(known_ids()))
    with open(os.path.join(wd, "LT.cfg"), "w") as f:
        f.write("SPECIFICATION Spec\nCONSTANTS\n  KnownIds <- MCKnown\nPOSTCONDITION Accepted\nCHECK_DEADLOCK FALSE\n")
    runs = [TlcRun(wd, "LT.tla", "LT.cfg", env={"TRACE": t}, name="lt%d" % i, deque=True, mem="2g", timeout=3000) for i, t in enumerate(traces)]
    t0 = time.time()
    run_tlc_many(runs)
    log("[tlc] LoopTrace: %d processes, %.1fs" % (len(runs), time.time() - t0))
    counters = [0] * len(REGS)
    bad, kn = [], []
    consumed = total = 0
    for r in runs:
        err = r.other_error()
        if err:
            res.tool_errors.append("%s: %s" % (r.name, err))
            continue
        acc = r.printed("ACCEPTED")
        if not acc:
            res.tool_errors.append("%s: no acceptance line" % r.name)
            continue
        v = parse_tla_value(acc[0])
        consumed, total = consumed + v[1], total + v[2]
        if v[1] != v[2]:
            res.tool_errors.append("%s: trace not consumed: %d of %d lines (the trace specification cannot explain line %d)" % (r.name, v[1], v[2], v[1] + 1))
        for i, x in enumerate(v[3]):
            counters[i] += x
        bad += [(parse_tla_value(l)[1], sorted(parse_tla_value(l)[2])) for l in r.printed("BAD")]
        kn += [(parse_tla_value(l)[1], sorted(parse_tla_value(l)[2])) for l in r.printed("KNOWN")]
        res.drift += [l[:900] for l in r.printed("DRIFT")]
    return nlines, counters, bad, kn


def startup_runs(res, exe, wd, tier):
    """Full-stack runs (auxiliary, part of the C10 check): do_remapping_loop_these_devices itself - open_device's start-up
    (wait until no key is down, grab; uinput set-up; tablet device), the device thread, the loop - with every system call it
    makes on the three device nodes answered by the scripted environment. TLC enumerates the start-up schedules from
    spec/Startup.tla (keys down at open, arrivals between the opener's calls) and checks its design-level properties;
    the recorded start-up calls are validated against spec/StartupTrace.tla, the loop part against LoopTrace.tla.
    Start-up clauses (SU-...) are not listed properties: they are reported as AUX lines and in the evidence, never as VIOLATION."""
    t0 = time.time()
    me = 3 if tier == "quick" else 4
    with open(os.path.join(wd, "SUG.tla"), "w") as f:
        f.write("---- MODULE SUG ----\nEXTENDS Startup\n====\n")
    with open(os.path.join(wd, "SUG.cfg"), "w") as f:
        f.write('SPECIFICATION FairSpec\nCONSTANTS\n  Keys = {"A", "S"}\n  MaxEvents = %d\n  Emit = TRUE\nINVARIANT TypeOK\nINVARIANT GrabOnlyAfterQuietSnapshot\n'
                'INVARIANT GrabbedIffDone\nINVARIANT EmitSchedule\nPROPERTY Settles\nCHECK_DEADLOCK FALSE\n' % me)
    g = TlcRun(wd, "SUG.tla", "SUG.cfg", name="SUG", workers=4, mem="4g", timeout=1200).run()
    if g.invariant_violated() or g.other_error():
        res.tool_errors.append("Startup.tla: %s" % (g.invariant_violated() or g.other_error()))
        return {}
    # the three things the start-up does NOT give must be reachable in the model (each is an invariant TLC must refute)
    reach = {}
    for inv in ("NoKeyDownAtGrab", "NothingLeftAtGrab", "NoKeystrokeReplayed"):
        with open(os.path.join(wd, "SUR_%s.cfg" % inv), "w") as f:
            f.write('SPECIFICATION Spec\nCONSTANTS\n  Keys = {"A", "S"}\n  MaxEvents = 3\n  Emit = FALSE\nINVARIANT %s\nCHECK_DEADLOCK FALSE\n' % inv)
        r = TlcRun(wd, "SUG.tla", "SUR_%s.cfg" % inv, name="SUR_" + inv, workers=1, mem="2g", timeout=600).run()
        reach[inv] = bool(r.invariant_violated())
    sus = schedules_of(g)
    lay = LAYOUTS["basic"]
    tails = [[], [{"a": "arrK", "t": "P", "k": "S", "x": ""}, {"a": "poll", "t": "dev", "k": "", "x": "KT"}, {"a": "readK", "t": "", "k": "", "x": ""}, {"a": "readK", "t": "", "k": "", "x": ""},
                  {"a": "poll", "t": "timeout", "k": "", "x": "timed"}, {"a": "arrK", "t": "R", "k": "S", "x": ""}, {"a": "poll", "t": "dev", "k": "", "x": "KT"}, {"a": "readK", "t": "", "k": "", "x": ""}]]
    cases = []
    for i, su in enumerate(sus):
        cases.append({"id": "FS-%d" % i, "layout": lay, "sched": tails[i % 2], "sleep": "no", "faults": 0, "mode": "full", "noise": i % 4, "su": su})
    if not cases:
        res.tool_errors.append("Startup.tla printed no schedule")
        return {}
    nchunks = max(1, min(PROCS, len(cases) // 40 or 1))
    traces = []
    for i in range(nchunks):
        cp = os.path.join(wd, "fs_cases_%d.ndjson" % i)
        write_ndjson(cp, cases[i::nchunks])
        tp = os.path.join(wd, "fs_trace_%d.ndjson" % i)
        run_tmv(exe, ["loop", cp], stdout_path=tp)
        traces.append(tp)
    with open(os.path.join(wd, "ST.tla"), "w") as f:
        f.write("---- MODULE ST ----\nEXTENDS StartupTrace\n====\n")
    with open(os.path.join(wd, "ST.cfg"), "w") as f:
        f.write("SPECIFICATION Spec\nPOSTCONDITION Accepted\nCHECK_DEADLOCK FALSE\n")
    with open(os.path.join(wd, "LT.tla"), "w") as f:
        f.write("---- MODULE LT ----\nEXTENDS LoopTrace\nMCKnown == %s\n====\n" % tla_set(known_ids()))
    with open(os.path.join(wd, "LT.cfg"), "w") as f:
        f.write("SPECIFICATION Spec\nCONSTANTS\n  KnownIds <- MCKnown\nPOSTCONDITION Accepted\nCHECK_DEADLOCK FALSE\n")
    sruns = [TlcRun(wd, "ST.tla", "ST.cfg", env={"TRACE": t}, name="st%d" % i, deque=True, mem="2g", timeout=1200) for i, t in enumerate(traces)]
    lruns = [TlcRun(wd, "LT.tla", "LT.cfg", env={"TRACE": t}, name="fslt%d" % i, deque=True, mem="2g", timeout=1200) for i, t in enumerate(traces)]
    run_tlc_many(sruns + lruns)
    regs = [0] * 5
    subad, loopbad = [], []
    for r in sruns:
        err = r.other_error()
        acc = r.printed("SU-ACCEPTED")
        if err or not acc:
            res.tool_errors.append("%s: %s" % (r.name, err or "no acceptance line"))
            continue
        v = parse_tla_value(acc[0])
        if v[1] != v[2]:
            res.tool_errors.append("%s: start-up trace not consumed: %d of %d lines" % (r.name, v[1], v[2]))
        regs = [a + b for a, b in zip(regs, v[3])]
        for line in r.printed("SU-BAD"):
            pv = parse_tla_value(line)
            subad.append((pv[1], sorted(pv[2])))
    for r in lruns:
        err = r.other_error()
        acc = r.printed("ACCEPTED")
        if err or not acc:
            res.tool_errors.append("%s: %s" % (r.name, err or "no acceptance line"))
            continue
        v = parse_tla_value(acc[0])
        if v[1] != v[2]:
            res.tool_errors.append("%s: full-stack trace not consumed by LoopTrace: %d of %d lines" % (r.name, v[1], v[2]))
        loopbad += [(parse_tla_value(l)[1], sorted(parse_tla_value(l)[2])) for l in r.printed("BAD")]
        res.drift += [l[:600] for l in r.printed("DRIFT")]
    env = [(t, c) for t, cl in subad for c in cl if c.startswith("ENV-")]
    if env:
        res.tool_errors.append("the recorder's start-up environment misbehaved: %s" % env[:3])
    aux = {}
    for t, cl in subad:
        for c in cl:
            if not c.startswith("ENV-"):
                aux.setdefault(c, []).append(t)
    for c, ts in sorted(aux.items()):
        log("AUX: start-up (not a listed property): %s in %d full-stack runs, e.g. %s" % (c, len(ts), ts[0]))
    log("[startup] Startup.tla: %d states, %d start-up schedules; %d full-stack runs of do_remapping_loop_these_devices (open_device + thread + loop), %d with a key down at open, "
        "%d grabs, %d uinput set-ups judged, %d start-ups leave unread events to the loop; start-up clauses failing: %d; %.1fs"
        % (g.counts()[1], len(sus), regs[0], regs[1], regs[2], regs[3], regs[4], len(aux), time.time() - t0))
    by_id = {c["id"]: c for c in cases}
    return {"cases": by_id, "loopbad": loopbad,
            "evidence": {"startup_model_states": g.counts()[1], "startup_schedules": len(sus), "full_stack_runs": regs[0], "with_a_key_down_at_open": regs[1], "grabs_judged": regs[2],
                         "uinput_setups_judged": regs[3], "startups_leaving_unread_events_to_the_loop": regs[4], "startup_clauses_failing": {c: len(t) for c, t in aux.items()},
                         "design_observations_reachable_in_Startup_tla": reach,
                         "note": "auxiliary: the start-up is not one of the listed properties; Startup.tla documents what it gives (grab only after a snapshot with no key down; settles when "
                                 "the keys are released) and what it does not (a key can go down between the snapshot and the grab; events typed before the grab stay in the buffer and "
                                 "are replayed through the mapper although the system has already seen them)"}}


# loop-level clauses that are ALSO what another property says, seen at the loop: C06 ("after the release-all operation used on tablet-mode
# changes nothing is held ... answers as a newly created mapper ... no memory of ... repeat triggers survives")
# what reaches the device, event by event: an event the loop was notified about is left unread when it goes back to waiting; a step's output is not written, written
# differently, or something is written that no step asked for
DELIVERY = {"C10-poll-with-unread-events", "C10-send-missing-step", "C10-wrong-payload-step", "C10-unexpected-send"}
ALIAS = {"C03": DELIVERY, "C04": DELIVERY, "C05": DELIVERY, "C07": DELIVERY, "C08": DELIVERY,
         # C09 at the loop ("a step asks the event loop to start repeating exactly when ... with exactly that mapping's repeat keys, delay and interval; every other
         # key press or release that the mapper acts on cancels repeating; events it ignores leave the repeat state unchanged"): what the loop does with the
         # requests - a chord although the repeat was cancelled, no chord / no timer although one was requested, another chord or timing than the fired mapping's
         "C09": {"C11-chord-at-wrong-time", "C11-chord-missing", "C11-repeat-without-timer", "C11-repeat-not-as-listed-in-the-layout", "C11-timeout-off-schedule"},
         # C02 / C19 at the device (own prefixes; listed for the evidence)
         "C02": {"C02-key-down-on-the-virtual-keyboard-while-waiting-without-justification", "C10-poll-with-unread-events"},
         "C19": {"C19-redundant-event-written-to-the-device"},
         # C01 at the loop ("whenever no physical key is held, no key is held on the virtual keyboard"), judged each time the loop goes back to waiting
         "C01": {"C01-keys-held-while-waiting-although-every-key-was-released"},
         # C14 at the loop ("every layout that loading accepts can be ... driven with any sequence of key events without panicking"): the loop
         # that drives the mapper must not panic either, whatever the accepted layout's repeat timings are (zero, negative)
         "C14": {"C10-loop-panicked"},
         # ... and its first sentence ("after all physical keys have been released nothing is held on the virtual keyboard") at the device, like C01
         "C06": {"C12-repeat-survives-tablet-switch", "C12-not-fresh-after-tablet-mode", "C12-not-released-at-tablet-on", "C12-chord-not-as-fresh-after-tablet-mode",
                 "C01-keys-held-while-waiting-although-every-key-was-released", "C10-poll-with-unread-events"},
         # C18 at the real driver ("for every batch of output events the bytes written are one record per event ... followed by exactly one
         # SYN_REPORT"): under the real driver every write is decoded and logged as one send, so a batch that is split, merged, truncated or
         # malformed on its way through RealDriver::send / DevInputWriter::send shows as a payload that is not the batch
         "C18": {"C10-wrong-payload-step", "C10-wrong-payload-releaseall", "C10-unexpected-send", "C10-send-missing-step", "C10-send-missing-releaseall"}}


def clause_prop(c, prop=None):
    """C11-chord-content -> C11; KNOWN-D4-C11-... -> C11; ENV-... -> ENV; with prop: a clause listed under ALIAS[prop] counts for prop"""
    if prop and c in ALIAS.get(prop, ()):
        return prop
    parts = c.split("-")
    return parts[2] if parts[0] == "KNOWN" and len(parts) > 2 else parts[0]


def base_id(tid):
    return tid.split("/f")[0]


def fault_of(tid):
    return int(tid.split("/f")[1]) if "/f" in tid else 0


def digest(res, prop, cases, bad, kn, walkjobs=None):
    by_id = {c["id"]: c for c in cases}
    others = {}
    for tid, clauses in kn:
        for c in clauses:
            k = known_entry_for(c)
            if k and k["property"] == prop:
                res.known_hit(k["id"], "%s in trace %s" % (c, tid))
    nrep = 0
    for tid, clauses in bad:
        env = [c for c in clauses if c.startswith("ENV-")]
        if env:
            res.tool_errors.append("the recorder's environment misbehaved in trace %s: %s" % (tid, env))
        mine = [c for c in clauses if clause_prop(c, prop) == prop]
        for c in clauses:
            if clause_prop(c, prop) not in (prop, "ENV"):
                others[c] = others.get(c, 0) + 1
        if mine and str(tid).startswith("LW-"):
            wj = (walkjobs or {}).get(tid)
            if nrep < 10 and wj:
                res.violation(",".join(mine), {"engine": "E2-loop-walk", "trace_id": tid, "job": wj, "layout": wj["layout"],
                                               "how": "bin/check %s --replay <this file> takes the same random history through the real loop again and lets TLC validate the trace" % prop})
                nrep += 1
            else:
                res.more_violations += 1
        elif mine:
            c = by_id.get(base_id(tid))
            if nrep < 10:
                res.violation(",".join(mine), {"engine": "E2-loop-trace", "trace_id": tid, "layout": c["layout"], "sched": c["sched"], "sleep": c["sleep"], "fault": fault_of(tid), "mode": c.get("mode", "scripted"), "noise": c.get("noise", 0), "werr": c.get("werr", 5), "su": c.get("su", []),
                                               "how": "bin/check %s --replay <this file> runs the real loop under this schedule again and lets TLC validate the trace" % prop})
                nrep += 1
            else:
                res.more_violations += 1
    if others:
        res.notes.append("clauses of other properties seen in these traces (reported by their own checks): %s" % others)


def variants(prop, tier, cases):
    """sleep/fault variants (data only)"""
    out = list(cases)
    if prop == "C11":
        timed = [c for c in cases if any(l["a"] == "poll" and l["t"] == "timeout" for l in c["sched"])]
        step = max(1, len(timed) // (150 if tier == "quick" else 1500))
        for c in timed[::step]:
            for mode in ("yes", "over"):
                out.append(dict(c, id=c["id"] + "-" + mode, sleep=mode))
        # a wait that is cut short by a signal after half of its time-out (the runs that really sleep): what is asked for next must be what is left
        intr = [c for c in timed if any(l["a"] == "poll" and l["t"] == "intr" for l in c["sched"])]
        step = max(1, len(intr) // (100 if tier == "quick" else 1000))
        for c in intr[::step]:
            out.append(dict(c, id=c["id"] + "-iyes", sleep="yes"))
        # one time-out served several intervals late, the others on time or at once: the schedule must not shift ("without drift")
        multi = [c for c in cases if sum(1 for l in c["sched"] if l["a"] == "poll" and l["t"] == "timeout" and l["x"] == "timed") >= 2]
        step = max(1, len(multi) // (120 if tier == "quick" else 1200))
        for c in multi[::step]:
            for nm, modes in (("late1", ["late", "no"]), ("late2", ["no", "late", "no"]), ("late1y", ["late", "yes"])):
                out.append(dict(c, id=c["id"] + "-" + nm, sleep=modes))
    if prop == "C20":
        step = max(1, len(cases) // (400 if tier == "quick" else 6000))
        out = [dict(c, faults="all") for c in cases[::step]]
        out += [dict(c, faults="all") for c in big_batch_cases()[:1 if tier == "quick" else 3]]
    if prop in FAULT_PROPS:
        # every call of a sample of the schedules fails in turn, and once a write has failed every later write fails as well (a consumer that stays
        # stalled): HEAD returns at the failure; a loop or writer that swallows it goes on with keys down on the device that nothing will lift
        # (the clauses about what is DOWN ON THE DEVICE: C01-keys-held-while-waiting..., C02-key-down-on-the-virtual-keyboard..., C12-keys-down-on-the-
        # virtual-keyboard-while-waiting-in-tablet-mode, C19-redundant-event-written-to-the-device)
        pool = [c for c in cases if any(l["a"] == "arrK" and l["t"] == "R" for l in c["sched"]) or any(l["a"] == "arrT" for l in c["sched"])] or cases
        step = max(1, len(pool) // (120 if tier == "quick" else 1200))
        flt = [dict(c, id=c["id"] + "-flt", faults="all") for c in pool[::step]]
        out += flt
        # ... and every second of them under the REAL driver with the failing write answered EAGAIN (the errno a writer or driver is most likely to treat
        # as "nothing happened"): chosen here rather than left to the rotation below, so that it does not depend on where in the list a schedule falls
        out_eagain = [dict(c, id=c["id"] + "-sysE", mode="sys", noise=1 + i % 2, werr=11) for i, c in enumerate(flt[::2])]
    if prop in ("C10", "C18"):
        out += big_batch_cases()
    out += scenario_cases(prop)
    # the same runs one level lower: the REAL driver (mio, evdev-format reads, uinput-format writes) with the three system
    # calls it makes answered by the same scripted environment; MSC/SYN framing, auto-repeat and unnamed-key noise rotate
    stride = {"quick": 3, "thorough": 2}[tier] if prop != "C18" else 1      # (C18's loop-level part is about the real driver only)
    # an injected write failure carries EIO, EAGAIN or ENODEV in turn (the two the readers treat as "no data" / "device gone")
    out += [dict(c, id=c["id"] + "-sys%d" % (i % 4), mode="sys", noise=i % 4, werr=[5, 11, 19][(i // 3) % 3]) for i, c in enumerate(out[::stride])]
    if prop in FAULT_PROPS:
        out += out_eagain
    return out


def loop_level(res, exe, wd, tier, prop):
    """The loop-level reading of a mapper property (ALIAS): TLC-enumerated schedules of Loop.tla, the real loop (scripted driver and system-call level), LoopTrace.tla;
    the aliased clauses count as violations of `prop`. Adds to `res`; returns an evidence dict."""
    cases, gen, dist = generate(res, wd, prop, tier)
    if res.tool_errors:
        return {}
    runs_cases = variants(prop, tier, cases)
    wjobs, wtraces = walk_traces(exe, wd, prop, tier)
    nlines, counters, bad, kn = record_and_validate(res, exe, wd, runs_cases, prop, wtraces)
    digest(res, prop, runs_cases, bad, kn, {j["id"]: j for j in wjobs})
    regs = dict(zip(REGS, counters))
    if not res.tool_errors:
        missing = [REGS[i - 1] for i in NEED[prop] if counters[i - 1] == 0]
        if missing:
            res.tool_errors.append("vacuous loop-level run: never exercised: %s" % missing)
    return {"loop_level_clauses": sorted(ALIAS[prop]), "loop_level_schedules": len(cases), "loop_level_runs_of_the_real_loop": regs["traces"], "loop_level_trace_lines_validated": nlines,
            "loop_level_monitor_counters": regs, "loop_level_model_states": dist}


def check(prop, tier, replay_file=None):
    if replay_file and prop == "C12" and json.load(open(replay_file)).get("engine") == "E1-mapper-bisimulation":
        import e1
        return e1.check_c06(tier, replay_file, prop="C12")
    res = Result(prop, tier, "fault_enumeration" if prop == "C20" else "model_checking")
    try:
        exe = build_harness()
        wd = workdir("%s-%s" % (prop, "replay" if replay_file else tier))
        if replay_file and json.load(open(replay_file)).get("engine") == "E2-loop-walk":
            rp = json.load(open(replay_file))
            jp = os.path.join(wd, "lwjobs_replay.json")
            json.dump({"jobs": [rp["job"]]}, open(jp, "w"))
            tp = os.path.join(wd, "lwtrace_replay.ndjson")
            run_tmv(exe, ["walk", jp], stdout_path=tp)
            nlines, counters, bad, kn = record_and_validate(res, exe, wd, [], prop, [tp])
            for l in list(open(tp))[-12:]:
                log("  " + l.strip()[:300])
            if res.tool_errors:
                log("TOOL-ERROR: " + res.tool_errors[0])
                return 2
            mine = [c for _, cl in bad for c in cl if clause_prop(c, prop) == prop]
            if mine:
                log("VIOLATION property=%s replay=%s clause=%s" % (prop, replay_file, ",".join(sorted(set(mine)))))
                return 1
            log("replay: no clause of %s is violated by the real loop on this history" % prop)
            return 0
        if replay_file:
            rp = json.load(open(replay_file))
            cases = [{"id": "replay", "layout": rp["layout"], "sched": rp["sched"], "sleep": rp.get("sleep", "no"), "faults": rp.get("fault", 0), "mode": rp.get("mode", "scripted"), "noise": rp.get("noise", 0), "werr": rp.get("werr", 5), "su": rp.get("su", [])}]
            nlines, counters, bad, kn = record_and_validate(res, exe, wd, cases, prop)
            for l in open(os.path.join(wd, "trace_0.ndjson")):
                log("  " + l.strip()[:400])
            if res.tool_errors:
                log("TOOL-ERROR: " + res.tool_errors[0])
                return 2
            mine = [c for _, cl in bad for c in cl if clause_prop(c, prop) == prop]
            if mine:
                log("VIOLATION property=%s replay=%s clause=%s" % (prop, replay_file, ",".join(sorted(set(mine)))))
                return 1
            log("replay: no clause of %s is violated by the real loop under this schedule (known-finding clauses: %s)" % (prop, [c for _, cl in kn for c in cl]))
            return 0
        cases, gen, dist = generate(res, wd, prop, tier)
        if res.tool_errors:
            return res.finish()
        runs_cases = variants(prop, tier, cases)
        wjobs, wtraces = walk_traces(exe, wd, prop, tier) if prop in ("C10", "C12") else ([], [])
        nlines, counters, bad, kn = record_and_validate(res, exe, wd, runs_cases, prop, wtraces)
        fs = {}
        if prop == "C10" and not res.tool_errors:
            fs = startup_runs(res, exe, wd, tier)
            if fs:
                runs_cases = runs_cases + list(fs["cases"].values())
                bad = bad + fs["loopbad"]
        digest(res, prop, runs_cases, bad, kn, {j["id"]: j for j in wjobs})
        regs = dict(zip(REGS, counters))
        s0 = cases[len(cases) // 2]
        samples = [{"layout": s0["lname"], "schedule": [(l["a"] + ":" + l["t"] + (":" + l["k"] if l["k"] else "") + (":" + l["x"] if l["x"] else "")) for l in s0["sched"]]}]
        try:
            tl = [json.loads(l) for l in open(os.path.join(wd, "trace_0.ndjson")).readlines()[:14]]
            samples.append({"recorded_trace_head": tl})
        except Exception:
            pass
        cov = {
            "states": dist, "transitions": gen, "traces_validated_against_impl": regs["traces"], "samples": samples,
            "schedules_enumerated": len(cases), "runs_of_the_real_loop": regs["traces"], "trace_lines_validated": nlines,
            "monitor_counters": regs, "conformance_drifts": regs["drifts"],
            "random_histories_through_the_real_loop_over_small_layouts": len(wjobs),
            "schedules_also_run_under_the_real_driver_at_system_call_level": sum(1 for c in runs_cases if c.get("mode") == "sys"),
            "configurations": [{"layout": c[0], "key_events": c[1], "max_arrivals": c[2], "max_tablet_events": c[3], "max_timeouts": c[4], "max_interruptions": c[5],
                                "burst_of_events_arriving_at_once": c[6] if len(c) > 6 else 0} for c in GEN[(prop, tier)]],
            "exhaustive": True,
            "rule": "states/transitions: TLC model checking of spec/Loop.tla (loop + environment, design-level invariants incl. NoLostWakeup and SendsAreMapperOutputs) for the listed "
                    "configurations; every finished behaviour = one schedule (all splittings of the key histories into arrivals before polls and during drains, both device orders, "
                    "time-outs, one interruption, every position of end-of-device); each schedule is run on the REAL loop under the scripted driver and the recorded call trace is "
                    "validated line by line by TLC against spec/LoopTrace.tla; a third of the runs (thorough: half) are repeated under the REAL driver (mio, DevInputReader, TabletModeSwitchReader, "
                    "DevInputWriter) with its epoll_wait/read/write calls answered by the same scripted environment and evdev-style framing noise; "
                    "traces_validated_against_impl = traces fully consumed and judged",
        }
        if fs:
            cov["full_stack_startup"] = fs["evidence"]
        if prop == "C12" and not res.tool_errors:
            import e1
            cov.update(e1.mapper_level_c12(res, exe, workdir("%s-%s-mapper" % (prop, tier)), tier))
        if prop == "C20":
            cov.update({"evaluations": regs["traces"], "distinct_nontrivial": regs["failing_calls_judged"],
                        "rule": cov["rule"] + ". Fault enumeration: for each selected schedule a fault-free run, then one run per driver call index k with the k-th call returning Err; "
                                              "non-trivial = runs in which a call really failed."})
        res.coverage = cov
        res.assumptions = ["environment assumptions of spec/Loop.tla (edge-triggered readiness; a timed poll times out only after its time-out; end-of-device is last)",
                           "the scripted driver implements that environment (every trace's environment part is replayed and checked by TLC: ENV-* clauses)",
                           "the clock is observed (monotonic stamps around every call), not controlled",
                           "system-call level runs: the kernel side (poll masks, EAGAIN/ENODEV, input_event framing) is a model of drivers/input/evdev.c written into the recorder; "
                           "open_device (EVIOCGRAB, /dev/uinput set-up) is not exercised"]
        if regs["drifts"]:
            res.notes.append("DRIFT: %d traces leave LoopCore.tla (the model needs updating; verdicts come from the monitors on the real calls)" % regs["drifts"])
        if not res.violations and not res.tool_errors:
            missing = [REGS[i - 1] for i in NEED[prop] if counters[i - 1] == 0]
            if missing:
                res.tool_errors.append("vacuous run: never exercised: %s" % missing)
    except ToolError as e:
        res.tool_errors.append(str(e))
    return res.finish()
