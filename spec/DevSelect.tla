------------------------------ MODULE DevSelect ------------------------------
(***************************************************************************)
(* Judge for the selection clause of C16, end to end.  RESULTS = what the    *)
(* real binary selected for remapping on a fabricated system, on both         *)
(* discovery paths (sel_all: --all-keyboards; sel_auto: --auto-all-keyboards;  *)
(* sel_dev: --dev-file on every                                                *)
(* device node with --only-if-keyboard), with the mapping sysfs path -> node. *)
(* A device under the virtual-input tree or with an excluded name is never    *)
(* selected; every other device the extractors call a keyboard is; both       *)
(* paths select the same devices.  "Keyboard" is read from the per-entry      *)
(* results of the real extractors (SINGLES), so this judges selection, not    *)
(* the heuristic.                                                            *)
(***************************************************************************)
EXTENDS DevList, TLC, Json, IOUtils
CONSTANT KnownIds
Res == ndJsonDeserialize(IOEnv.RESULTS)
Single == ndJsonDeserialize(IOEnv.SINGLES)
NodeOf(r, sysfs) == LET hits == {i \in 1..Len(r.nodes): r.nodes[i].sysfs = sysfs} IN
                    IF hits = {} THEN "" ELSE r.nodes[CHOOSE i \in hits: TRUE].node
\* devices that must be selected, as a set of nodes
Expected(r) ==
  {NodeOf(r, Kinds[r.entries[i]].sysfs): i \in {j \in 1..Len(r.entries):
       LET e == Kinds[r.entries[j]]  s == Single[r.entries[j]] IN
       Len(s.devs) = 1 /\ s.devs[1].kbd /\ ~IsVirtual(e) /\ ~Excluded(NameOf(e), r.excludes)}}
ToSetOf(s) == {s[i]: i \in 1..Len(s)}
ListedExpected(r) ==
  {NodeOf(r, Kinds[r.entries[i]].sysfs): i \in {j \in 1..Len(r.entries):
       LET e == Kinds[r.entries[j]]  s == Single[r.entries[j]] IN Len(s.devs) = 1 /\ s.devs[1].kbd /\ ~IsVirtual(e)}}
\* What the binary selected is read from its --verbose text. That reading is only trusted where the text is consistent with itself - the number of
\* devices it announces ("Remapping N devices") is the number of devices read off its listing / not reported as skipped; where it is not (a reworded
\* message, or a binary whose text and deeds differ) the path counts as not observed here (an AUX line) and selection on it is judged where the devices
\* are actually opened (FleetTrace.tla, SupervisorTrace.tla).
ObsAll(r) == r.n_all = Len(r.sel_all)
ObsDev(r) == r.nodes # <<>> /\ r.n_dev = Len(r.sel_dev)
ObsAlt(r) == r.nodes # <<>> /\ r.n_alt = Len(r.sel_alt)
Seen(r) == (IF ObsAll(r) THEN ToSetOf(r.sel_all) ELSE {}) \cup (IF ObsDev(r) THEN ToSetOf(r.sel_dev) ELSE {})
Verdict(r) ==
  (IF r.panicked THEN {"C16-binary-panics"} ELSE {})
  \cup (IF \E i \in 1..Len(r.entries): IsVirtual(Kinds[r.entries[i]]) /\ NodeOf(r, Kinds[r.entries[i]].sysfs) \in Seen(r)
        THEN {"C16-virtual-device-selected"} ELSE {})
  \cup (IF \E i \in 1..Len(r.entries): Excluded(NameOf(Kinds[r.entries[i]]), r.excludes) /\ Listed(Kinds[r.entries[i]])
                                        /\ NodeOf(r, Kinds[r.entries[i]].sysfs) \in Seen(r)
        THEN {"C16-excluded-device-selected"} ELSE {})
  \cup (IF ObsAll(r) /\ ToSetOf(r.sel_all) # Expected(r) THEN {"C16-selection-all-keyboards"} ELSE {})
  \cup (IF ObsDev(r) /\ ToSetOf(r.sel_dev) # Expected(r) THEN {"C16-selection-dev-file"} ELSE {})
  \* whichever way the device is named: through a symlink under /dev/input/by-id, or with a doubled slash
  \cup (IF ObsAlt(r) /\ ToSetOf(r.sel_alt) # Expected(r) THEN {"C16-selection-dev-file-by-other-name"} ELSE {})
  \* the third way through the command line: --auto-all-keyboards (the devices the supervisor goes on to open in its first round)
  \cup (IF "sel_auto" \in DOMAIN r /\ r.auto_seen /\ ToSetOf(r.sel_auto) # Expected(r) THEN {"C16-selection-auto-all-keyboards"} ELSE {})
  \cup (IF "sel_auto" \in DOMAIN r /\ r.panicked_auto THEN {"C16-binary-panics"} ELSE {})
Unobserved(r) == (IF ObsAll(r) THEN {} ELSE {"all-keyboards"}) \cup (IF r.nodes = <<>> \/ ObsDev(r) THEN {} ELSE {"dev-file"}) \cup (IF r.nodes = <<>> \/ ObsAlt(r) THEN {} ELSE {"dev-file-by-other-name"})
\* `totalmapper list_keyboards` (every keyboard outside the virtual tree; exclusion does not apply there) is not one of the discovery paths C16 names, and
\* its output format is nobody's contract: a difference is reported as an auxiliary line only
ASSUME \A i \in 1..Len(Res): ToSetOf(Res[i].listed) # ListedExpected(Res[i]) =>
          PrintT(<<"AUX", Res[i].id, "list_keyboards shows other devices than the keyboards outside the virtual tree (or in another format)", Res[i].listed>>)
ASSUME \A i \in 1..Len(Res): Unobserved(Res[i]) # {} => PrintT(<<"AUX", Res[i].id, "the binary's --verbose text is not consistent with itself on these paths (not judged here)", Unobserved(Res[i])>>)
Judge(i) == LET r == Res[i]  v == Verdict(r) IN
            v # {} => PrintT(<<IF v \subseteq KnownIds THEN "KNOWN" ELSE "BAD", r.id, v>>)
ASSUME \A i \in 1..Len(Res): Judge(i)
ASSUME PrintT(<<"JUDGED", Len(Res), Cardinality({i \in 1..Len(Res): Expected(Res[i]) # {}})>>)
VARIABLE x
Init == x = 0
Next == x' = x
=============================================================================
