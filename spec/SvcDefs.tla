------------------------------ MODULE SvcDefs -------------------------------
(***************************************************************************)
(* C17: the property predicate.  A result (from `tmv svc`) carries the     *)
(* pattern list and the ExecStart value that the real build_service_text    *)
(* produced.  The value is decoded with SystemdExec!ExecDecode and must     *)
(* carry every pattern as the value of an --exclude argument, with the      *)
(* surrounding arguments intact.  Shared by SvcCheck and SvcRanges.         *)
(***************************************************************************)
EXTENDS SystemdExec, SequencesExt, TLC, Json, IOUtils
CONSTANT KnownIds

Res == ndJsonDeserialize(IOEnv.RESULTS)

W(str) == str
\* "/usr/bin/totalmapper" "remap" "--verbose" "--layout-file" "/etc/totalmapper.json" "--only-if-keyboard"
Head6 == << <<47,117,115,114,47,98,105,110,47,116,111,116,97,108,109,97,112,112,101,114>>, <<114,101,109,97,112>>,
            <<45,45,118,101,114,98,111,115,101>>, <<45,45,108,97,121,111,117,116,45,102,105,108,101>>,
            <<47,101,116,99,47,116,111,116,97,108,109,97,112,112,101,114,46,106,115,111,110>>,
            <<45,45,111,110,108,121,45,105,102,45,107,101,121,98,111,97,114,100>> >>
Exclude == <<45,45,101,120,99,108,117,100,101>>
DevFile == <<45,45,100,101,118,45,102,105,108,101>>
Expected(pats) == Head6 \o FlattenSeq([i \in 1..Len(pats) |-> <<Exclude, pats[i]>>]) \o <<DevFile, <<47, SpecMarker(73)>>>>

\* a case is non-trivial when some pattern contains a character the reader treats specially
SpecialSet == WS \cup {BSL, SQ, DQ, PCT, DOL, SEMI}
NonTrivial(r) == \E i \in 1..Len(r.pats): \E j \in 1..Len(r.pats[i]): r.pats[i][j] \in SpecialSet \/ r.pats[i][j] < 32 \/ r.pats[i][j] >= 127

(* ---- the unit file as a whole, by systemd's unit-file rules (src/shared/conf-parser.c): lines end at LF or CR; leading white    *)
(* space is dropped; empty lines and lines starting with # or ; are comments; [Name] opens a section; a line ending in a backslash *)
(* continues on the next one; everything else is key=value. The ExecStart line judged above must be THE command of the service:   *)
(* exactly one ExecStart assignment in the file, inside [Service].                                                              *)
RECURSIVE SplitLines(_, _, _)
SplitLines(t, i, cur) == IF i > Len(t) THEN <<cur>>
                         ELSE IF t[i] \in {10, 13} THEN <<cur>> \o SplitLines(t, i + 1, <<>>)
                         ELSE SplitLines(t, i + 1, Append(cur, t[i]))
RECURSIVE LStrip(_)
LStrip(l) == IF l # <<>> /\ l[1] \in {32, 9} THEN LStrip(Tail(l)) ELSE l
RECURSIVE RStrip(_)
RStrip(l) == IF l # <<>> /\ l[Len(l)] \in {32, 9} THEN RStrip(SubSeq(l, 1, Len(l) - 1)) ELSE l
\* join continuation lines (a line that ends in a backslash swallows the next one, with a blank in between)
RECURSIVE JoinCont(_)
JoinCont(ls) == IF Len(ls) <= 1 THEN ls
                ELSE IF ls[1] # <<>> /\ ls[1][Len(ls[1])] = 92 /\ ~(LStrip(ls[1])[1] \in {35, 59})
                     THEN JoinCont(<<SubSeq(ls[1], 1, Len(ls[1]) - 1) \o <<32>> \o ls[2]>> \o SubSeq(ls, 3, Len(ls)))
                     ELSE <<ls[1]>> \o JoinCont(Tail(ls))
EqPos(l) == LET ps == {i \in 1..Len(l): l[i] = 61} IN IF ps = {} THEN 0 ELSE CHOOSE i \in ps: \A j \in ps: i <= j
RECURSIVE Assignments(_, _)
\* -> sequence of [sec, key, val] in file order
Assignments(ls, sec) ==
  IF ls = <<>> THEN <<>>
  ELSE LET l == LStrip(ls[1]) IN
       IF l = <<>> \/ l[1] \in {35, 59} THEN Assignments(Tail(ls), sec)
       ELSE IF l[1] = 91 THEN (LET r == RStrip(l) IN
                               IF r[Len(r)] = 93 THEN Assignments(Tail(ls), SubSeq(r, 2, Len(r) - 1)) ELSE Assignments(Tail(ls), sec))
       ELSE LET e == EqPos(l) IN
            IF e = 0 THEN Assignments(Tail(ls), sec)
            ELSE <<[sec |-> sec, key |-> RStrip(SubSeq(l, 1, e - 1)), val |-> LStrip(SubSeq(l, e + 1, Len(l)))]>> \o Assignments(Tail(ls), sec)
ExecStartKey == <<69, 120, 101, 99, 83, 116, 97, 114, 116>>
ServiceSec == <<83, 101, 114, 118, 105, 99, 101>>
UnitVerdict(r) ==
  IF "text" \notin DOMAIN r \/ r.o # "ok" THEN {}
  ELSE LET as == Assignments(JoinCont(SplitLines(r.text, 1, <<>>)), <<>>)
           es == SelectSeq(as, LAMBDA a: a.key = ExecStartKey)
       IN (IF Len(es) = 0 THEN {"C17-unit-has-no-ExecStart"} ELSE IF Len(es) > 1 THEN {"C17-unit-has-several-ExecStart-lines"} ELSE {})
          \cup (IF \E i \in 1..Len(es): es[i].sec # ServiceSec THEN {"C17-ExecStart-outside-the-Service-section"} ELSE {})
          \cup (IF Len(es) = 1 /\ es[1].val # r.line THEN {"C17-ExecStart-line-is-not-the-command-systemd-reads"} ELSE {})

\* The statement: every pattern comes back as the value of an --exclude argument, byte for byte, and the surrounding arguments --layout-file <file>,
\* --only-if-keyboard and --dev-file /%I stay intact. It does not fix the order of the argument groups nor forbid other flags (--verbose), so the decoded
\* vector is read the way the tool's own command line reads it: the words after the program (and the sub-command) are options; --exclude, --layout-file
\* and --dev-file take the next word as their value.
LayoutFile == Head6[4]
LayoutPath == Head6[5]
OnlyIfKbd == Head6[6]
TakesValue == {Exclude, DevFile, LayoutFile}
RECURSIVE ParseOpts(_, _)
ParseOpts(argv, i) == IF i > Len(argv) THEN <<>>
                      ELSE IF argv[i] \in TakesValue /\ i + 1 <= Len(argv) THEN <<[opt |-> argv[i], val |-> argv[i + 1], has |-> TRUE]>> \o ParseOpts(argv, i + 2)
                      ELSE <<[opt |-> argv[i], val |-> <<>>, has |-> FALSE]>> \o ParseOpts(argv, i + 1)
ValuesOf(os, o) == LET sel == SelectSeq(os, LAMBDA x: x.opt = o /\ x.has) IN [i \in 1..Len(sel) |-> sel[i].val]
Verdict0(r) ==
  IF r.o # "ok" THEN {"C17-no-execstart-line-" \o r.o}
  ELSE LET d == ExecDecode(r.line) IN
       IF ~d.ok THEN {"C17-line-invalid"}
       ELSE IF d.argv = Expected(r.pats) THEN {}
       ELSE LET os == ParseOpts(d.argv, 2)
                ex == ValuesOf(os, Exclude)
            IN (IF Len(ex) # Len(r.pats) THEN {"C17-argument-count"} ELSE IF ex # r.pats THEN {"C17-pattern-changed"} ELSE {})
               \cup (IF d.argv = <<>> \/ ValuesOf(os, LayoutFile) # <<LayoutPath>> \/ ValuesOf(os, DevFile) # << <<47, SpecMarker(73)>> >>
                         \/ ~(\E i \in 1..Len(os): os[i].opt = OnlyIfKbd /\ ~os[i].has)
                         \/ (\E i \in 1..Len(os): os[i].opt \in TakesValue /\ ~os[i].has)
                      THEN {"C17-surrounding-arguments"} ELSE {})

Verdict(r) == Verdict0(r) \cup UnitVerdict(r)

=============================================================================
