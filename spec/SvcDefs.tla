------------------------------ MODULE SvcDefs -------------------------------
(***************************************************************************)
(* C17: the property predicate.  A result (from `tmv svc`) carries the     *)
(* pattern list and the ExecStart value that the real build_service_text    *)
(* produced.  The value is decoded with SystemdExec!ExecDecode and must be  *)
(* exactly the intended argument vector.  Shared by SvcCheck and SvcRanges. *)
(***************************************************************************)
EXTENDS SystemdExec, SequencesExt, TLC, Json, IOUtils
CONSTANT KnownIds

Res == ndJsonDeserialize(IOEnv.RESULTS)

W(str) == str
\* "/usr/bin/totalmapper" "remap" "--verbose" "--layout-file" "/etc/totalmapper.json" "--only-if-keyboard"
Head6 == << <<47,117,115,114,47,98,105,110,47,116,111,116,97,108,109,97,112,112,101,114>>, <<114,101,109,97,112>>,
            <<45,45,118,101,114,98,111,115,101>>, <<45,45,108,97,121,111,117,116,45,102,105,108,101>>,
            <<47,101,116,99,47,116,111,116,97,108,109,97,112,112,101,114,46,106,115,111,110>>,
            <<45,45,111,110,108,121,45,105,102,45,107,101,121,98,111,97,114,100>> >>
Exclude == <<45,45,101,120,99,108,117,100,101>>
DevFile == <<45,45,100,101,118,45,102,105,108,101>>
Expected(pats) == Head6 \o FlattenSeq([i \in 1..Len(pats) |-> <<Exclude, pats[i]>>]) \o <<DevFile, <<47, SpecMarker(73)>>>>

\* a case is non-trivial when some pattern contains a character the reader treats specially
SpecialSet == WS \cup {BSL, SQ, DQ, PCT, DOL, SEMI}
NonTrivial(r) == \E i \in 1..Len(r.pats): \E j \in 1..Len(r.pats[i]): r.pats[i][j] \in SpecialSet \/ r.pats[i][j] < 32 \/ r.pats[i][j] >= 127

Verdict(r) ==
  IF r.o # "ok" THEN {"C17-no-execstart-line-" \o r.o}
  ELSE LET d == ExecDecode(r.line) IN
       IF ~d.ok THEN {"C17-line-invalid"}
       ELSE IF d.argv = Expected(r.pats) THEN {}
       ELSE IF Len(d.argv) # Len(Expected(r.pats)) THEN {"C17-argument-count"}
       ELSE IF \E i \in 1..Len(d.argv): d.argv[i] # Expected(r.pats)[i] /\ Expected(r.pats)[i] \in {Exclude, DevFile} \cup ToSet(Head6) \cup {<<47, SpecMarker(73)>>}
            THEN {"C17-surrounding-arguments"} ELSE {"C17-pattern-changed"}

=============================================================================
