------------------------------ MODULE LoadCheck ------------------------------
(***************************************************************************)
(* Judge for the first half of C14.  RESULTS = ndjson from `tmv load` /     *)
(* `tmv loadtext`: the outcome of the real loader on an input, recorded      *)
(* under catch_unwind: "ok" (a layout), "err" (a message) or "panic".        *)
(* Loading must never panic.  (What happens to the accepted layouts in the   *)
(* mapper is judged by MapperImplMC, clause ids C14-panic-*.)                *)
(***************************************************************************)
EXTENDS Naturals, Sequences, FiniteSets, TLC, Json, IOUtils
CONSTANT KnownIds
Res == ndJsonDeserialize(IOEnv.RESULTS)
Outcomes(r) == IF "r1" \in DOMAIN r THEN {r.r1.o} \cup (IF "r2" \in DOMAIN r THEN {r.r2.o} ELSE {}) ELSE {r.o}
Verdict(r) == IF "panic" \in Outcomes(r) THEN {"C14-loader-panic"}
              ELSE IF Outcomes(r) \subseteq {"ok", "err"} THEN {} ELSE {"C14-no-outcome"}
Judge(i) == LET r == Res[i]  v == Verdict(r) IN
            v # {} => PrintT(<<IF v \subseteq KnownIds THEN "KNOWN" ELSE "BAD", r.id, v>>)
ASSUME \A i \in 1..Len(Res): Judge(i)
\* non-trivial here: inputs the loader accepted (they go on to the mapper)
ASSUME PrintT(<<"JUDGED", Len(Res), Cardinality({i \in 1..Len(Res): "ok" \in Outcomes(Res[i])}), Cardinality({i \in 1..Len(Res): "err" \in Outcomes(Res[i])})>>)
VARIABLE x
Init == x = 0
Next == x' = x
=============================================================================
