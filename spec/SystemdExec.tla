---------------------------- MODULE SystemdExec ----------------------------
(***************************************************************************)
(* How systemd (252) reads the value of an ExecStart= line: the decoder     *)
(* whose encoder is udev_utils.rs (property C17).  Text is a sequence of    *)
(* code points.  ExecDecode(line) = [ok, argv]; argv is a sequence of words,*)
(* a word a sequence of code points and markers (an expanded specifier, a   *)
(* raw byte >= 0x80 produced by \xHH, an expanded variable) that are equal  *)
(* to no code point.  Stages: word splitting and quote removal with C      *)
(* unescaping (extract_first_word, retried in relaxed mode on unknown       *)
(* escapes), the stand-alone ";" separator, per-word % specifier expansion, *)
(* and exec-time $ handling.  Validated against the real decoder            *)
(* (`systemd --test --user`, see bin/check C17 --tier thorough).            *)
(***************************************************************************)
EXTENDS Naturals, Sequences, FiniteSets

WS == {32, 9, 10, 13}
BSL == 92   SQ == 39   DQ == 34   PCT == 37   DOL == 36   SEMI == 59   LBR == 123   RBR == 125
SpecLetters == {65,66,67,69,71,72,73,74,76,77,78,80,83,84,85,86,87,89,
                97,98,100,102,103,104,105,106,108,109,110,111,112,113,115,116,117,118,119,121}
SpecMarker(c) == 2000000 + c        \* "%c expanded", never a code point
ByteMarker(b) == 3000000 + b        \* raw byte >= 0x80 from \xHH or \ooo
EnvMarker == 4000000

HexVal(c) == IF c >= 48 /\ c <= 57 THEN c - 48
             ELSE IF c >= 97 /\ c <= 102 THEN c - 87
             ELSE IF c >= 65 /\ c <= 70 THEN c - 55 ELSE 99
OctVal(c) == IF c >= 48 /\ c <= 55 THEN c - 48 ELSE 99

RECURSIVE HexNum(_, _, _, _)
HexNum(s, i, n, acc) == IF n = 0 THEN acc ELSE HexNum(s, i + 1, n - 1, acc * 16 + HexVal(s[i]))
HexOK(s, i, n) == i + n - 1 <= Len(s) /\ \A j \in i..(i + n - 1): HexVal(s[j]) # 99

\* cunescape_one at s[i] (the char after the backslash): [ok, len, val]
Unescape(s, i) ==
  LET c == s[i] IN
  CASE c = 97  -> [ok |-> TRUE, len |-> 1, val |-> 7]
    [] c = 98  -> [ok |-> TRUE, len |-> 1, val |-> 8]
    [] c = 102 -> [ok |-> TRUE, len |-> 1, val |-> 12]
    [] c = 110 -> [ok |-> TRUE, len |-> 1, val |-> 10]
    [] c = 114 -> [ok |-> TRUE, len |-> 1, val |-> 13]
    [] c = 116 -> [ok |-> TRUE, len |-> 1, val |-> 9]
    [] c = 118 -> [ok |-> TRUE, len |-> 1, val |-> 11]
    [] c = BSL -> [ok |-> TRUE, len |-> 1, val |-> BSL]
    [] c = DQ  -> [ok |-> TRUE, len |-> 1, val |-> DQ]
    [] c = SQ  -> [ok |-> TRUE, len |-> 1, val |-> SQ]
    [] c = 115 -> [ok |-> TRUE, len |-> 1, val |-> 32]
    [] c = 120 -> IF HexOK(s, i + 1, 2)
                  THEN LET v == HexNum(s, i + 1, 2, 0) IN
                       [ok |-> v # 0, len |-> 3, val |-> IF v >= 128 THEN ByteMarker(v) ELSE v]
                  ELSE [ok |-> FALSE, len |-> 0, val |-> 0]
    [] c = 117 -> IF HexOK(s, i + 1, 4)
                  THEN LET v == HexNum(s, i + 1, 4, 0) IN
                       [ok |-> v # 0 /\ ~(v >= 55296 /\ v <= 57343), len |-> 5, val |-> v]
                  ELSE [ok |-> FALSE, len |-> 0, val |-> 0]
    [] c = 85  -> IF HexOK(s, i + 1, 8)
                  THEN LET v == HexNum(s, i + 1, 8, 0) IN
                       [ok |-> v # 0 /\ v <= 1114111 /\ ~(v >= 55296 /\ v <= 57343), len |-> 9, val |-> v]
                  ELSE [ok |-> FALSE, len |-> 0, val |-> 0]
    [] c >= 48 /\ c <= 55 ->
                  IF i + 2 <= Len(s) /\ OctVal(s[i+1]) # 99 /\ OctVal(s[i+2]) # 99
                  THEN LET v == OctVal(c) * 64 + OctVal(s[i+1]) * 8 + OctVal(s[i+2]) IN
                       [ok |-> v # 0 /\ v <= 255, len |-> 3, val |-> IF v >= 128 THEN ByteMarker(v) ELSE v]
                  ELSE [ok |-> FALSE, len |-> 0, val |-> 0]
    [] OTHER   -> [ok |-> FALSE, len |-> 0, val |-> 0]

SkipWS(s, i) == LET rest == {j \in i..Len(s): s[j] \notin WS} IN
                IF rest = {} THEN Len(s) + 1 ELSE CHOOSE j \in rest: \A k \in rest: j <= k

\* extract_first_word with EXTRACT_UNQUOTE|EXTRACT_CUNESCAPE, starting at a non-blank s[i].
\* q = 0 (unquoted) | SQ | DQ.  Returns [ok, word, next].
RECURSIVE WordX(_, _, _, _, _)
WordX(s, i, q, acc, relax) ==
  IF i > Len(s)
  THEN [ok |-> q = 0, word |-> acc, next |-> i]
  ELSE LET c == s[i] IN
       IF c = BSL
       THEN IF i = Len(s)
            THEN (IF relax /\ q = 0 THEN [ok |-> TRUE, word |-> Append(acc, BSL), next |-> i + 1]
                  ELSE [ok |-> FALSE, word |-> acc, next |-> i])
            ELSE LET u == Unescape(s, i + 1) IN
                 IF u.ok THEN WordX(s, i + 1 + u.len, q, Append(acc, u.val), relax)
                 ELSE IF relax THEN WordX(s, i + 2, q, acc \o <<BSL, s[i+1]>>, relax)
                 ELSE [ok |-> FALSE, word |-> acc, next |-> i]
       ELSE IF q # 0
            THEN IF c = q THEN WordX(s, i + 1, 0, acc, relax) ELSE WordX(s, i + 1, q, Append(acc, c), relax)
            ELSE IF c = SQ \/ c = DQ THEN WordX(s, i + 1, c, acc, relax)
                 ELSE IF c \in WS THEN [ok |-> TRUE, word |-> acc, next |-> SkipWS(s, i)]
                 ELSE WordX(s, i + 1, 0, Append(acc, c), relax)

\* extract_first_word_and_warn: strict first, then retry keeping unknown escapes verbatim
Word(s, i, q, acc) == LET a == WordX(s, i, q, acc, FALSE) IN IF a.ok THEN a ELSE WordX(s, i, q, acc, TRUE)

\* specifier_printf on one word
IsAlnum(c) == (c >= 48 /\ c <= 57) \/ (c >= 65 /\ c <= 90) \/ (c >= 97 /\ c <= 122)
BadSpec == 5000000
RECURSIVE Specifiers(_, _, _)
Specifiers(w, i, acc) ==
  IF i > Len(w) THEN acc
  ELSE IF w[i] # PCT THEN Specifiers(w, i + 1, Append(acc, w[i]))
  ELSE IF i = Len(w) THEN Append(acc, PCT)
  ELSE IF w[i+1] = PCT THEN Specifiers(w, i + 2, Append(acc, PCT))
  ELSE IF w[i+1] \in SpecLetters THEN Specifiers(w, i + 2, Append(acc, SpecMarker(w[i+1])))
  ELSE IF IsAlnum(w[i+1]) THEN <<BadSpec>>
  ELSE Specifiers(w, i + 2, acc \o <<PCT, w[i+1]>>)

\* replace_env_full (flags 0) inside one word: ${NAME} and $$
RECURSIVE EnvInWord(_, _, _)
EnvInWord(w, i, acc) ==
  IF i > Len(w) THEN acc
  ELSE IF w[i] # DOL THEN EnvInWord(w, i + 1, Append(acc, w[i]))
  ELSE IF i = Len(w) THEN Append(acc, DOL)
  ELSE IF w[i+1] = DOL THEN EnvInWord(w, i + 2, Append(acc, DOL))
  ELSE IF w[i+1] = LBR
       THEN LET close == {j \in (i+2)..Len(w): w[j] = RBR} IN
            IF close = {} THEN acc \o SubSeq(w, i, Len(w))       \* unterminated: kept
            ELSE EnvInWord(w, (CHOOSE j \in close: \A k \in close: j <= k) + 1, Append(acc, EnvMarker))
  ELSE EnvInWord(w, i + 1, Append(acc, DOL))

\* the argument loop of config_parse_exec, then unit_full_printf; stage "parsed" = what
\* `systemd --test` dumps; EnvStage = replace_env_argv at exec time
RECURSIVE Args(_, _, _)
Args(s, i, acc) ==
  IF i > Len(s) THEN [ok |-> TRUE, argv |-> acc, semi |-> FALSE]
  ELSE IF s[i] = SEMI /\ (i = Len(s) \/ s[i+1] \in WS) THEN [ok |-> TRUE, argv |-> acc, semi |-> TRUE]
  ELSE IF s[i] = BSL /\ i < Len(s) /\ s[i+1] = SEMI /\ (i + 1 = Len(s) \/ s[i+2] \in WS)
       THEN Args(s, SkipWS(s, i + 2), Append(acc, <<SEMI>>))
  ELSE LET r == Word(s, i, 0, <<>>) IN
       IF ~r.ok THEN [ok |-> FALSE, argv |-> acc, semi |-> FALSE]
       ELSE LET w == Specifiers(r.word, 1, <<>>) IN
            IF w = <<BadSpec>> THEN [ok |-> FALSE, argv |-> acc, semi |-> FALSE]
            ELSE Args(s, r.next, Append(acc, w))

Parsed(line) == Args(line, SkipWS(line, 1), <<>>)

EnvStage(argv) ==
  LET keep == SelectSeq(argv, LAMBDA w: ~(Len(w) >= 1 /\ w[1] = DOL /\ (Len(w) = 1 \/ w[2] \notin {LBR, DOL})))
  IN [i \in 1..Len(keep) |-> EnvInWord(keep[i], 1, <<>>)]

ExecDecode(line) == LET p == Parsed(line) IN
                    [ok |-> p.ok /\ ~p.semi, argv |-> IF p.ok THEN EnvStage(p.argv) ELSE <<>>]
=============================================================================
