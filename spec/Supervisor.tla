----------------------------- MODULE Supervisor -----------------------------
(***************************************************************************)
(* The multi-device supervisor of `remap --auto-all-keyboards`:             *)
(* do_remapping_loop_auto_all_devices (src/remapping_loop.rs), with its      *)
(* environment: the kernel's device list, the device nodes and their         *)
(* permissions, the inotify watch on /dev/input (CREATE | ATTRIB only, no    *)
(* DELETE), the evdev grab (held by an open descriptor until that descriptor *)
(* is closed - and the code never closes one: DevInputReader has no Drop),   *)
(* and the worker threads (one do_remapping_loop_one_device per device).     *)
(*                                                                           *)
(* One action per step of the code:                                          *)
(*   SupReap   the reverse index loop over `children` joining done workers   *)
(*   SupList   list_keyboards + flag_excluded (the snapshot of this round)   *)
(*   SupScan   one iteration of `for dev in devs`: already_have_it, else     *)
(*             open_device (open, wait-release, EVIOCGRAB, uinput) + spawn   *)
(*   SupWait / SupWake  inotify.read_events_blocking                         *)
(* Environment: Appear (a node is created, with good or bad permissions),    *)
(* FixPerm (udev's chmod: an ATTRIB event), Vanish (unplug: NO event),       *)
(* Touch (any other CREATE/ATTRIB in /dev/input), WorkerEndsGone (a worker   *)
(* whose device is gone reads ENODEV and returns Ok), WorkerFails (an I/O     *)
(* error on any of its descriptors: returns Err), ListFails.                 *)
(*                                                                           *)
(* Serial = TRUE restricts the environment to act while the supervisor waits *)
(* (what the recorder can reproduce deterministically); the finished         *)
(* behaviours are then printed as schedules (EmitSchedule) and replayed on   *)
(* the real supervisor, whose recorded calls SupervisorTrace.tla validates.   *)
(* Serial = FALSE lets the environment act at every point of a round.        *)
(***************************************************************************)
EXTENDS Naturals, Sequences, FiniteSets, TLC, Json

CONSTANTS Dyn,         \* sequence of the device ids that come and go, in the order the kernel lists them (all of them selectable keyboards)
          MaxRounds,   \* number of wake-ups of the supervisor in a schedule
          MaxPerStep,  \* environment actions between two wake-ups
          MaxFail,     \* injected failures (worker I/O errors) in a behaviour
          Serial, Emit

DynSet == {Dyn[i]: i \in 1..Len(Dyn)}

VARIABLES present,   \* subset of DynSet: devices in the kernel's list
          badperm,   \* subset of DynSet: the node exists but cannot be opened yet (udev has not set its permissions)
          grab,      \* [DynSet -> Nat]: the worker whose descriptor holds the grab of the current device instance (0: none)
          workers,   \* sequence of [dev, st]: st = "run" | "gone" (device unplugged, ENODEV not read yet) | "ok" | "err" (returned; done flag set)
          children,  \* set of worker indices the supervisor still holds
          pc, todo,  \* supervisor: "reap" | "list" | "scan" | "wait" | "stopped"; the rest of this round's snapshot
          pending,   \* unread inotify events
          fails, rounds, listfail,
          attempts,  \* what this round's scan did: sequence of [dev, res]
          snap,      \* this round's snapshot of the list
          step, sched
vars == <<present, badperm, grab, workers, children, pc, todo, pending, fails, rounds, listfail, attempts, snap, step, sched>>

Init == /\ present = {} /\ badperm = {} /\ grab = [d \in DynSet |-> 0] /\ workers = <<>> /\ children = {}
        /\ pc = "reap" /\ todo = <<>> /\ pending = 0 /\ fails = 0 /\ rounds = 0 /\ listfail = FALSE /\ attempts = <<>> /\ snap = {}
        /\ step = <<>> /\ sched = <<>>

Lbl(a, d, x) == [a |-> a, d |-> d, x |-> x]
EnvMay == (~Serial \/ pc = "wait") /\ Len(step) < MaxPerStep /\ rounds < MaxRounds /\ pc # "stopped"
Note(l) == step' = Append(step, l)

Running(d) == {w \in 1..Len(workers): workers[w].dev = d /\ workers[w].st \in {"run", "gone"}}

\* ---------------------------------------------------------------- environment
Appear(d, perm) ==
  /\ EnvMay /\ d \notin present
  /\ present' = present \cup {d}
  /\ badperm' = (IF perm = "bad" THEN badperm \cup {d} ELSE badperm \ {d})
  /\ grab' = [grab EXCEPT ![d] = 0]          \* a new kernel device: nobody holds its grab
  /\ pending' = pending + 1                   \* IN_CREATE
  /\ Note(Lbl("appear", d, perm))
  /\ UNCHANGED <<workers, children, pc, todo, fails, rounds, listfail, attempts, snap, sched>>

FixPerm(d) ==
  /\ EnvMay /\ d \in present /\ d \in badperm
  /\ badperm' = badperm \ {d}
  /\ pending' = pending + 1                   \* IN_ATTRIB
  /\ Note(Lbl("fixperm", d, ""))
  /\ UNCHANGED <<present, grab, workers, children, pc, todo, fails, rounds, listfail, attempts, snap, sched>>

Vanish(d) ==
  /\ EnvMay /\ d \in present
  /\ present' = present \ {d} /\ badperm' = badperm \ {d}
  /\ workers' = [w \in 1..Len(workers) |-> IF workers[w].dev = d /\ workers[w].st = "run" THEN [workers[w] EXCEPT !.st = "gone"] ELSE workers[w]]
  /\ Note(Lbl("vanish", d, ""))              \* IN_DELETE is not watched: no event
  /\ UNCHANGED <<grab, children, pc, todo, pending, fails, rounds, listfail, attempts, snap, sched>>

Touch ==
  /\ EnvMay
  /\ pending' = pending + 1
  /\ Note(Lbl("touch", "", ""))
  /\ UNCHANGED <<present, badperm, grab, workers, children, pc, todo, fails, rounds, listfail, attempts, snap, sched>>

\* the worker of an unplugged device reads ENODEV: its loop returns Ok and the thread sets `done`
WorkerEndsGone(w) ==
  /\ EnvMay /\ w \in 1..Len(workers) /\ workers[w].st = "gone"
  /\ workers' = [workers EXCEPT ![w].st = "ok"]
  /\ Note(Lbl("end", workers[w].dev, "ok"))
  /\ UNCHANGED <<present, badperm, grab, children, pc, todo, pending, fails, rounds, listfail, attempts, snap, sched>>

\* an I/O error on one of the worker's descriptors (C20): its loop returns Err; the device stays plugged in and GRABBED by the
\* worker's descriptor, which nobody closes
WorkerFails(w) ==
  /\ EnvMay /\ fails < MaxFail /\ w \in 1..Len(workers) /\ workers[w].st \in {"run", "gone"}
  /\ workers' = [workers EXCEPT ![w].st = "err"]
  /\ fails' = fails + 1
  /\ Note(Lbl("end", workers[w].dev, "err"))
  /\ UNCHANGED <<present, badperm, grab, children, pc, todo, pending, rounds, listfail, attempts, snap, sched>>

Env == \/ \E d \in DynSet: Appear(d, "ok") \/ Appear(d, "bad") \/ FixPerm(d) \/ Vanish(d)
       \/ Touch
       \/ \E w \in 1..Len(workers): WorkerEndsGone(w) \/ WorkerFails(w)

\* ---------------------------------------------------------------- supervisor
Done(w) == workers[w].st \in {"ok", "err"}

SupReap ==
  /\ pc = "reap"
  /\ children' = {w \in children: ~Done(w)}
  /\ pc' = "list" /\ attempts' = <<>>
  /\ UNCHANGED <<present, badperm, grab, workers, todo, pending, fails, rounds, listfail, snap, step, sched>>

InOrder(S) == SelectSeq(Dyn, LAMBDA d: d \in S)

SupList ==
  /\ pc = "list"
  /\ IF listfail THEN pc' = "stopped" /\ todo' = <<>> /\ snap' = {}
                 ELSE pc' = "scan" /\ todo' = InOrder(present) /\ snap' = present
  /\ UNCHANGED <<present, badperm, grab, workers, children, pending, fails, rounds, listfail, attempts, step, sched>>

OpenResult(d) == IF d \notin present THEN "enoent"
                 ELSE IF d \in badperm THEN "eacces"
                 ELSE IF grab[d] # 0 THEN "ebusy"
                 ELSE "ok"

SupScan ==
  /\ pc = "scan" /\ todo # <<>>
  /\ LET d == Head(todo)
         have == \E w \in children: workers[w].dev = d
         r == OpenResult(d)
     IN /\ todo' = Tail(todo)
        /\ IF have THEN UNCHANGED <<workers, children, grab, attempts>>
           ELSE /\ attempts' = Append(attempts, [dev |-> d, res |-> r])
                /\ IF r = "ok"
                   THEN /\ workers' = Append(workers, [dev |-> d, st |-> "run"])
                        /\ children' = children \cup {Len(workers) + 1}
                        /\ grab' = [grab EXCEPT ![d] = Len(workers) + 1]
                   ELSE UNCHANGED <<workers, children, grab>>
  /\ UNCHANGED <<present, badperm, pc, pending, fails, rounds, listfail, snap, step, sched>>

SupWait ==
  /\ pc = "scan" /\ todo = <<>>
  /\ pc' = "wait"
  /\ UNCHANGED <<present, badperm, grab, workers, children, todo, pending, fails, rounds, listfail, attempts, snap, step, sched>>

SupWake ==
  /\ pc = "wait" /\ pending > 0
  /\ pending' = 0 /\ pc' = "reap" /\ rounds' = rounds + 1
  /\ sched' = Append(sched, step) /\ step' = <<>>
  /\ listfail' = (rounds + 1 = MaxRounds)      \* the schedule ends by making the device list unreadable: the only way the supervisor returns
  /\ UNCHANGED <<present, badperm, grab, workers, children, todo, fails, attempts, snap>>

Sup == SupReap \/ SupList \/ SupScan \/ SupWait \/ SupWake
Next == Env \/ Sup
Spec == Init /\ [][Next]_vars

\* ---------------------------------------------------------------- what the design gives
TypeOK == /\ present \subseteq DynSet /\ badperm \subseteq present /\ children \subseteq 1..Len(workers)
          /\ pc \in {"reap", "list", "scan", "wait", "stopped"}
          /\ \A d \in DynSet: grab[d] \in 0..Len(workers)

\* never two workers of one path among the children (already_have_it looks at every child, finished or not)
OneWorkerPerPath == \A v, w \in children: workers[v].dev = workers[w].dev => v = w
\* never two RUNNING workers on one device, reaped or not
OneRunningPerDevice == \A d \in DynSet: Cardinality({w \in Running(d): workers[w].st = "run"}) <= 1
\* a running worker always holds the grab of its device instance
RunningHoldsGrab == \A w \in 1..Len(workers): workers[w].st = "run" => grab[workers[w].dev] = w
\* a worker's failure never stops the supervisor: it stops only when the list cannot be read
StopsOnlyOnListFailure == pc = "stopped" => listfail
\* a failed attempt does not end the round: when the supervisor goes back to waiting, every device of the round's snapshot
\* has a child or was attempted
RoundIsComplete == pc = "wait" => \A d \in snap: (\E i \in 1..Len(attempts): attempts[i].dev = d) \/ (\E w \in children: workers[w].dev = d)

\* ---------------------------------------------------------------- what it does NOT give (each must be REFUTED by TLC; recorded as observations)
\* (1) a keyboard that is plugged in and grabbed, while the worker that holds the grab has ended: dead until the process exits
NoDeadKeyboard == \A d \in present: grab[d] # 0 => workers[grab[d]].st \in {"run", "gone"}
\* (2) re-opening a device after its worker failed can never take the grab: the failed worker's descriptor still holds it
ReopenNeverBusy == \A i \in 1..Len(attempts): attempts[i].res # "ebusy"
\* (3) while the supervisor waits, every openable keyboard in the list has a running worker (fails: an unplug / re-plug whose worker
\*     has not finished when the supervisor looks; a worker that ends after the last inotify event)
WaitingMeansAllMapped == (pc = "wait" /\ pending = 0) => \A d \in present \ badperm: \E w \in Running(d): workers[w].st = "run"

\* ---------------------------------------------------------------- schedules for the recorder
Finished == pc = "stopped"
EmitSchedule == (Emit /\ Finished) => PrintT(<<"SCHEDULE", ToJson(sched)>>)
=============================================================================
