------------------------------- MODULE DevList -------------------------------
(***************************************************************************)
(* The kernel's device list /proc/bus/input/devices as the tool reads it    *)
(* (property C16).  An entry is a record of optional fields; Text renders    *)
(* entries the way the kernel does (I:, N:, P:, S:, U:, H:, B: lines, blank  *)
(* line after each entry).  The universe of names and of exclude patterns is *)
(* finite, and glob matching over it is given extensionally (MatchSet).      *)
(***************************************************************************)
EXTENDS Naturals, Sequences, FiniteSets, SequencesExt

\* key masks (hex words, most significant first) as the kernel prints them
FullKeys == "402000000 3803078f800d001 feffffdfffefffff fffffffffffffffe"     \* a full keyboard
MouseKeys == "1f0000 402000000 3803078f800d001 feffffdfffefffff fffffffffffffffe"  \* keyboard-like map of a gaming mouse (+ BTN_MOUSE..)
ScrollKeys == "402000000 3843078f800d001 feffffdfffefffff fffffffffffffffe"        \* a full keyboard + KEY_SCROLLDOWN (178)
FewKeys == "10000000000000 0"                                                  \* a power button
MediaKeys == "3e000b00000000 0 0 0"                                            \* video bus: several keys, no letters

PadKeys == "fa0000001000cffe"                                                   \* a 20-key macro pad, exactly at the tool's 20-key threshold, with key 63 (F5, the top bit of a word)
MmoKeys == "6003800000000 0 fffffffffffffffe"                                  \* macro-key interface of an MMO mouse: SCROLLDOWN above an EMPTY mask word

TouchKeys == "70000 402000000 3803078f800d001 feffffdfffefffff fffffffffffffffe"   \* a full keyboard + BTN_LEFT, BTN_RIGHT, BTN_MIDDLE (272-274: codes no KEY_ name stands for)

Absent == "-"
E(kind, name, sysfs, ev, key) == [kind |-> kind, name |-> name, sysfs |-> sysfs, ev |-> ev, key |-> key]
Kinds == <<
  E("keyboard",        "AT Translated Set 2 keyboard", "/devices/platform/i8042/serio0/input/input2", "120013", FullKeys),
  E("keyboard-noleds", "Compact Keys",                  "/devices/pci0000:00/usb1/1-2/input/input7", "100013", FullKeys),
  E("gaming-mouse",    "GXT 4155 Gaming Mouse",         "/devices/pci0000:00/usb1/1-1/input/input12", "17", MouseKeys),
  E("mouse-keyboard",  "Gaming Mouse Keyboard",         "/devices/pci0000:00/usb1/1-1/input/input13", "100013", ScrollKeys),
  E("scroll-leds",     "Fancy Board",                   "/devices/pci0000:00/usb1/1-3/input/input14", "120013", ScrollKeys),
  E("cros-ec",         "cros_ec",                       "/devices/platform/cros_ec/input/input3", "120013", FullKeys),
  E("power-button",    "Power Button",                  "/devices/LNXSYSTM:00/LNXPWRBN:00/input/input1", "3", FewKeys),
  E("video-bus",       "Video Bus",                     "/devices/LNXSYSTM:00/LNXVIDEO:00/input/input5", "3", MediaKeys),
  E("lid-switch",      "Lid Switch",                    "/devices/LNXSYSTM:00/PNP0C0D:00/input/input0", "21", Absent),
  E("virtual-keyboard","totalmapper",                   "/devices/virtual/input/input20", "100013", FullKeys),
  E("no-name",         Absent,                          "/devices/pci0000:00/usb1/1-4/input/input15", "120013", FullKeys),
  E("no-sysfs",        "Ghost keyboard",                Absent, "120013", FullKeys),
  E("no-ev",           "Plain keys",                    "/devices/pci0000:00/usb1/1-5/input/input16", Absent, FullKeys),
  E("virtual-mouse",   "Virtual Mouse",                 "/devices/virtual/input/input21", "17", MouseKeys),
  \* a name padded with a blank inside the quotes (the blank belongs to the name the kernel reports)
  E("padded-name",     "SINO WEALTH Gaming KB ",        "/devices/pci0000:00/usb1/1-6/input/input17", "120013", FullKeys),
  \* on the edge of the mouse heuristic: "Mouse" in the name, full key map, no EV line of its own
  E("no-ev-mouse",     "Razer Mouse",                   "/devices/pci0000:00/usb1/1-7/input/input18", Absent, FullKeys),
  E("macro-pad-20",    "Macro Pad",                     "/devices/pci0000:00/usb1/1-8/input/input19", "120013", PadKeys),
  E("mmo-mouse-macro", "MMO Gaming Device",             "/devices/pci0000:00/usb1/1-9/input/input22", "100013", MmoKeys),
  \* a Bluetooth LE keyboard: it reaches the kernel through uhid, so its sysfs path is under /devices/virtual/ but NOT under the
  \* virtual-input tree /devices/virtual/input/ - a real keyboard that has to be selected
  \* a name with a non-ASCII character. "(R)" stands for the registered sign U+00AE: lib/e3.py puts the real character into the text and the
  \* patterns the code under test sees and the placeholder back into what it returns (TLC's JSON I/O is not safe for non-ASCII strings)
  E("nonascii-keyboard", "Microsoft Microsoft(R) 2.4GHz Transceiver v9.0", "/devices/pci0000:00/usb1/1-10/input/input26", "120013", FullKeys),
  E("ble-uhid-keyboard", "BLE Board 5.0",               "/devices/virtual/misc/uhid/0005:046D:B342.0007/input/input25", "120013", FullKeys),
  \* a name that ends in a double quote (an inch sign): the kernel writes it between quotes without escaping, so the line ends in two quotes
  E("quote-name",      "Rii Mini Keyboard 7\"",          "/devices/pci0000:00/usb1/1-11/input/input27", "120013", FullKeys),
  \* a keyboard with a built-in touchpad on one node (Logitech K400 Plus): the typing keys plus the touchpad's buttons in one key map, pointer
  \* axes and LEDs among its event types - a real keyboard that has to be selected
  E("keyboard-touchpad", "Logitech K400 Plus",          "/devices/pci0000:00/usb1/1-12/input/input28", "12001f", TouchKeys)
>>
KindIds == 1..Len(Kinds)

NL == "\n"
Line(tag, v) == IF v = Absent THEN "" ELSE tag \o v \o NL
EntryText(e) ==
  "I: Bus=0003 Vendor=0001 Product=0001 Version=0110" \o NL
  \o (IF e.name = Absent THEN "" ELSE "N: Name=\"" \o e.name \o "\"" \o NL)
  \o "P: Phys=usb-0000:00:14.0-1/input0" \o NL
  \o Line("S: Sysfs=", e.sysfs)
  \o "U: Uniq=" \o NL
  \o "H: Handlers=sysrq kbd event0 leds " \o NL
  \o "B: PROP=0" \o NL
  \o Line("B: EV=", e.ev)
  \o Line("B: KEY=", e.key)
  \o "B: MSC=10" \o NL
  \o NL
RECURSIVE Text(_)
Text(es) == IF es = <<>> THEN "" ELSE EntryText(Kinds[Head(es)]) \o Text(Tail(es))

\* what an entry contributes to the device list the tool extracts: nothing without a KEY line or a sysfs path
Listed(e) == e.key # Absent /\ e.sysfs # Absent
NameOf(e) == IF e.name = Absent THEN "" ELSE e.name
IsVirtual(e) == e.sysfs \in {"/devices/virtual/input/input20", "/devices/virtual/input/input21"}

\* the heuristic of the tool, per entry (informative: a disagreement is DRIFT, the heuristic is not a listed property)
Keyboardish(e) ==
  LET full == e.key \in {FullKeys, MouseKeys, ScrollKeys, PadKeys, MmoKeys, TouchKeys}
      scroll == e.key \in {ScrollKeys, MmoKeys}
      noleds == e.ev \notin {"120013", "12001f"}
      mouseName == e.name \in {"GXT 4155 Gaming Mouse", "Gaming Mouse Keyboard", "Virtual Mouse", "Razer Mouse"}
      kbdName == e.name \in {"AT Translated Set 2 keyboard", "Gaming Mouse Keyboard", "Ghost keyboard"}
      mousey == (IF scroll THEN 1 ELSE 0) + (IF noleds THEN 1 ELSE 0) + (IF mouseName THEN 1 ELSE 0) >= 2
  IN full /\ (kbdName \/ ~mousey) /\ e.name # "cros_ec"

\* Entry kinds whose class is not a matter of tuning the heuristic: the statement itself lists them ("keyboards, mice with
\* keyboard-like key maps, buttons, switches") and the repository's example hardware agrees.  For these a wrong class on
\* either path is a violation of C16 ("only real keyboards ... every other keyboard-like device is"); for the constructed
\* boundary kinds a difference from Keyboardish stays DRIFT.
SureKeyboard == {"keyboard", "keyboard-noleds", "virtual-keyboard", "ble-uhid-keyboard", "nonascii-keyboard", "quote-name", "keyboard-touchpad"}
SureNotKeyboard == {"gaming-mouse", "power-button", "video-bus", "cros-ec", "virtual-mouse", "mmo-mouse-macro"}

\* exclude patterns and the names they match (glob semantics over the finite universe of names)
AllNames == {NameOf(Kinds[i]): i \in KindIds}
Patterns == <<"*Mouse*", "AT Translated Set 2 keyboard", "*", "totalmapper", "AT*", "*keyboard", "?T Translated Set 2 keyboard", "Nothing*", "*Keys", "Compact?Keys",
              "SINO WEALTH Gaming KB ", "SINO WEALTH Gaming KB", "*KB?", "* ",
              "Microsoft Microsoft(R) 2.4GHz Transceiver v9.0", "*Microsoft(R)*", "*(R) 2.4GHz Transceiver v9.0",
              "*7\"", "Rii Mini Keyboard 7", "Rii Mini Keyboard 7\"",
              ""      \* the empty pattern matches exactly the empty name (an entry without an N: line)
              >>
MatchSet(p) ==
  CASE p = "*Mouse*" -> {"GXT 4155 Gaming Mouse", "Gaming Mouse Keyboard", "Virtual Mouse", "Razer Mouse"}
    [] p = "AT Translated Set 2 keyboard" -> {"AT Translated Set 2 keyboard"}
    [] p = "*" -> AllNames
    [] p = "totalmapper" -> {"totalmapper"}
    [] p = "AT*" -> {"AT Translated Set 2 keyboard"}
    [] p = "*keyboard" -> {"AT Translated Set 2 keyboard", "Ghost keyboard"}
    [] p = "?T Translated Set 2 keyboard" -> {"AT Translated Set 2 keyboard"}
    [] p = "Nothing*" -> {}
    [] p = "*Keys" -> {"Compact Keys"}
    [] p = "Compact?Keys" -> {"Compact Keys"}
    [] p = "SINO WEALTH Gaming KB " -> {"SINO WEALTH Gaming KB "}     \* the exact name, blank included
    [] p = "SINO WEALTH Gaming KB" -> {}                              \* without the blank it is a different string
    [] p = "*KB?" -> {"SINO WEALTH Gaming KB "}
    [] p = "* " -> {"SINO WEALTH Gaming KB "}
    [] p = "" -> {""}
    [] p \in {"*7\"", "Rii Mini Keyboard 7\""} -> {"Rii Mini Keyboard 7\""}
    [] p = "Rii Mini Keyboard 7" -> {}                                \* without the quote it is a different string
    [] p \in {"Microsoft Microsoft(R) 2.4GHz Transceiver v9.0", "*Microsoft(R)*", "*(R) 2.4GHz Transceiver v9.0"} -> {"Microsoft Microsoft(R) 2.4GHz Transceiver v9.0"}
Excluded(name, pats) == \E i \in 1..Len(pats): name \in MatchSet(pats[i])
=============================================================================
