------------------------------ MODULE WireCheck ------------------------------
(***************************************************************************)
(* Judge for C18.  RESULTS = ndjson from `tmv wire`: per case the bytes the *)
(* real DevInputWriter::send wrote for each batch, the events the real       *)
(* DevInputReader::next decoded from everything written (batches and        *)
(* harness-written foreign records), and how reading ended.  CODES = ndjson *)
(* {name, code} parsed from the kernel's input-event-codes.h.               *)
(***************************************************************************)
EXTENDS Wire, TLC, Json, IOUtils
CONSTANT KnownIds
Res == ndJsonDeserialize(IOEnv.RESULTS)
Codes == ndJsonDeserialize(IOEnv.CODES)          \* the kernel's table
ToolKeys == ndJsonDeserialize(IOEnv.KEYS)        \* the names the tool knows
ToolNames == {ToolKeys[i].name: i \in 1..Len(ToolKeys)}
CodeTab == [n \in {Codes[i].name: i \in 1..Len(Codes)} |-> (CHOOSE i \in 1..Len(Codes): Codes[i].name = n)]
CodeOf(name) == Codes[CodeTab[name]].code
\* a code is known to the tool when the kernel names a key with it that the tool lists
KnownCodes == {Codes[i].code: i \in {j \in 1..Len(Codes): Codes[j].name \in ToolNames}}
Known(c) == c \in KnownCodes
NameSet(c) == {Codes[i].name: i \in {j \in 1..Len(Codes): Codes[j].code = c /\ Codes[j].name \in ToolNames}}

IsFull(w) == "full" \in DOMAIN w
\* (what is sent into a full descriptor never reaches the reader)
RecsOfWrite(w) == IF IsFull(w) THEN <<>> ELSE IF "batch" \in DOMAIN w THEN RecordsOf(w.batch, CodeOf) ELSE << <<w.raw[1], w.raw[2], w.raw[3]>> >>
AllRecs(r) == FlattenSeq([i \in 1..Len(r.writes) |-> RecsOfWrite(r.writes[i])])

Verdict(r) ==
  LET L == r.layout
      batchWrites == {i \in 1..Len(r.writes): "batch" \in DOMAIN r.writes[i] /\ ~IsFull(r.writes[i])}
      fullWrites == {i \in 1..Len(r.writes): IsFull(r.writes[i])}
      kept == SelectSeq(AllRecs(r), LAMBDA x: x[1] = EV_KEY /\ x[3] \in {0, 1} /\ Known(x[2]))
  IN (IF r.status # "ok" THEN {"C18-send-failed"} ELSE {})
     \cup (IF \E i \in batchWrites: ~SameRecords(r.writes[i].bytes, Encode(r.writes[i].batch, CodeOf, L), L) THEN {"C18-bytes"} ELSE {})
     \* "for every batch ... the bytes written are ...": a send that reports success has written the batch, whole; into a full descriptor it cannot have
     \cup (IF \E i \in fullWrites: r.writes[i].sendres = "ok" /\ ~SameRecords(r.writes[i].bytes, Encode(r.writes[i].batch, CodeOf, L), L)
           THEN {"C18-send-reported-success-for-bytes-it-did-not-write"} ELSE {})
     \cup (IF \E i \in fullWrites: r.writes[i].bytes # <<>> /\ ~SameRecords(r.writes[i].bytes, Encode(r.writes[i].batch, CodeOf, L), L) THEN {"C18-partial-batch-written"} ELSE {})
     \cup (IF Len(r.decoded) # Len(kept) THEN {"C18-decoded-count"}
           ELSE IF \E i \in 1..Len(kept): r.decoded[i].t # (IF kept[i][3] = 1 THEN "P" ELSE "R") \/ r.decoded[i].k \notin NameSet(kept[i][2])
                THEN {"C18-decoded-events"} ELSE {})
     \cup (IF r.end # "EAGAIN: Try again" THEN {"C18-reader-end"} ELSE {})

\* auxiliary (no listed property): the tablet switch reader on the same byte stream
AuxTablet(r) == r.tablet # TabletFilter(AllRecs(r)) \/ r.tablet_end # "EAGAIN: Try again"
ASSUME \A i \in 1..Len(Res): AuxTablet(Res[i]) => PrintT(<<"AUX", Res[i].id, "tablet switch reader", Res[i].tablet, TabletFilter(AllRecs(Res[i]))>>)
NonTrivial(r) == AllRecs(r) # << <<0, 0, 0>> >>
Judge(i) == LET r == Res[i]  v == Verdict(r) IN
            v # {} => PrintT(<<IF v \subseteq KnownIds THEN "KNOWN" ELSE "BAD", r.id, v>>)
ASSUME \A i \in 1..Len(Res): Judge(i)
ASSUME PrintT(<<"JUDGED", Len(Res), Cardinality({i \in 1..Len(Res): NonTrivial(Res[i])})>>)
VARIABLE x
Init == x = 0
Next == x' = x
=============================================================================
