------------------------------ MODULE FancyGen ------------------------------
(***************************************************************************)
(* Case generator for C13 (and the valid seeds of C14/C15): layout programs *)
(* of a bounded grammar.  For every program TLC writes the JSON value in two *)
(* spellings (bare strings / names as written vs one-element arrays / lower  *)
(* case names / explicit defaults) and the reference expansion Expand(P).    *)
(* Size = 1 (quick) | 2 (thorough) scales the grammar.                       *)
(***************************************************************************)
EXTENDS Fancy, TLC, Json, IOUtils
CONSTANTS Size,             \* 1 (quick) | 2 (thorough) scales the grammar
          Shard, NShards    \* this process expands and writes the programs number Shard, Shard + NShards, ... (1 <= Shard <= NShards)

AliasItem(f, x, n) == [ty |-> "alias", from |-> f, extra |-> x, name |-> n]
AliasBlocks ==
  { <<>>,
    <<AliasItem(<<"LEFTSHIFT">>, <<>>, "@s"), AliasItem(<<"RIGHTSHIFT">>, <<>>, "@s")>>,
    <<AliasItem(<<"LEFTSHIFT">>, <<>>, "@s"), AliasItem(<<"RIGHTSHIFT">>, <<>>, "@s"),
      AliasItem(<<"CAPSLOCK">>, <<>>, "@y"), AliasItem(<<"RIGHTALT">>, <<>>, "@y")>>,
    <<AliasItem(<<"CAPSLOCK", "X">>, <<"LEFTCTRL">>, "@m"), AliasItem(<<"TAB">>, <<"F13">>, "@m"), AliasItem(<<"LEFTSHIFT">>, <<>>, "@s")>>,
    \* three different aliases with 2, 1 and 2 definitions and no key in common: three-digit combination counting
    <<AliasItem(<<"RIGHTSHIFT">>, <<>>, "@r"), AliasItem(<<"LEFTALT", "LEFTMETA">>, <<"LEFTALT">>, "@r"),
      AliasItem(<<"LEFTSHIFT">>, <<>>, "@s"), AliasItem(<<"CAPSLOCK">>, <<>>, "@y"), AliasItem(<<"RIGHTALT">>, <<>>, "@y")>> }
  \cup (IF Size >= 2
        THEN { <<AliasItem(<<"LEFTSHIFT">>, <<>>, "@s"), AliasItem(<<"RIGHTSHIFT">>, <<>>, "@s"), AliasItem(<<"SPACE">>, <<>>, "@s"),
                 AliasItem(<<"CAPSLOCK">>, <<"F14">>, "@y")>>,
               \* 2, 2 and 2
               <<AliasItem(<<"RIGHTSHIFT">>, <<>>, "@r"), AliasItem(<<"RIGHTCTRL">>, <<>>, "@r"),
                 AliasItem(<<"LEFTSHIFT">>, <<>>, "@s"), AliasItem(<<"LEFTMETA">>, <<>>, "@s"),
                 AliasItem(<<"CAPSLOCK">>, <<>>, "@y"), AliasItem(<<"RIGHTALT">>, <<>>, "@y")>> }
        ELSE {})
Names(ab) == {ab[i].name: i \in 1..Len(ab)}
ModLists(ab) ==
  \* (the blocks with three aliases are there for the combination counting: two modifier lists are enough for them, also at Size 2 for the 2-2-2 block)
  IF "@r" \in Names(ab) /\ (Size < 2 \/ \E i \in 1..Len(ab): ab[i].from = <<"RIGHTCTRL">>) THEN {<<A("@r"), A("@s"), A("@y")>>, <<A("@y"), K("LEFTCTRL"), A("@r")>>, <<K("LEFTCTRL"), A("@r"), A("@y")>>} ELSE
  {<<K("LEFTCTRL")>>}
  \cup (IF Size >= 2 THEN {<<>>, <<K("RIGHTSHIFT")>>, <<K("LEFTCTRL"), K("LEFTALT"), K("RIGHTSHIFT")>>} ELSE {})
  \cup (IF "@s" \in Names(ab) THEN {<<A("@s")>>, <<K("LEFTCTRL"), A("@s")>>} ELSE {})
  \cup (IF "@y" \in Names(ab) THEN {<<A("@y")>>, <<A("@s"), A("@y")>>, <<A("@y"), K("LEFTALT"), A("@s")>>} ELSE {})
  \cup (IF "@m" \in Names(ab) THEN {<<A("@m")>>, <<A("@m"), A("@s")>>} ELSE {})
  \cup (IF "@r" \in Names(ab) THEN {<<A("@r")>>, <<A("@r"), A("@s"), A("@y")>>, <<A("@s"), A("@r")>>} ELSE {})
AliasIn(ml) == {ml[i]: i \in {j \in 1..Len(ml): ml[j].alias}}
ToMods(ml) == {<<>>, <<K("RIGHTALT")>>} \cup {<<a>>: a \in AliasIn(ml)}
            \cup (IF Size >= 2 THEN {<<a, K("LEFTMETA")>>: a \in AliasIn(ml)} ELSE {})
AbsLists(ml) == {<<>>} \cup {<<ml[i]>>: i \in 1..Len(ml)} \cup (IF Size >= 2 /\ Len(ml) >= 2 THEN {<<ml[1], ml[2]>>} ELSE {})
SRep(ml) == {Normal, Disabled}
            \cup {[kind |-> "Special", tomods |-> tm, toterm |-> tt, delay |-> 180, interval |-> 30]: tm \in ToMods(ml), tt \in {<<>>, <<"F24">>}}
            \cup (IF Size >= 2 THEN {[kind |-> "Special", tomods |-> <<>>, toterm |-> <<"F21">>, delay |-> d, interval |-> 1]: d \in {0, 2147483647}} ELSE {})
TheKey(ml) == IF ml = <<>> THEN "A" ELSE "A"
SinglesFor(ml) ==
  {[ty |-> "single", mods |-> ml, key |-> "A", tomods |-> <<>>, toterm |-> tt, rep |-> Normal, abs |-> <<>>]: tt \in {<<>>, <<"B">>}}
  \cup {[ty |-> "single", mods |-> ml, key |-> "A", tomods |-> tm, toterm |-> <<"B">>, rep |-> r, abs |-> ab2]:
          tm \in ToMods(ml), r \in SRep(ml), ab2 \in AbsLists(ml)}
Singles(ab) == UNION {SinglesFor(ml): ml \in ModLists(ab)}
Letters == { <<"A"," ","+">>, <<" ","=","b"," ">> } \cup (IF Size >= 2 THEN { <<"a","o","e","u">>, <<"{","}"," ","\\","\"">>, <<>> } ELSE {})
RowNames == IF Size >= 2 THEN {"`","1","Q","A","Z"} ELSE {"1","A"}
RRep(ml) == {Normal, Disabled}
            \cup {[kind |-> "Special", tomods |-> tm, letters |-> ls, delay |-> 50, interval |-> 30]: tm \in ToMods(ml), ls \in {<<" ","Y">>} \cup (IF Size >= 2 THEN {<<"x">>, <<>>} ELSE {})}
            \* as many repeat letters as the longest letters string has characters, trailing blank included (one more would be refused)
            \cup {[kind |-> "Special", tomods |-> <<>>, letters |-> <<"q"," ","e","r">>, delay |-> 50, interval |-> 30]}
            \* boundary timings on a ROW (rows and single mappings are parsed by different functions): zero and negative values
            \cup {[kind |-> "Special", tomods |-> <<>>, letters |-> <<" ","Y">>, delay |-> d, interval |-> i]: d \in {0, -5}, i \in {0, -1}}
RowsFor(ml) ==
  {[ty |-> "row", mods |-> ml, row |-> r, tomods |-> tm, letters |-> ls, rep |-> rp, abs |-> ab2]:
     r \in RowNames, tm \in ToMods(ml), ls \in Letters, rp \in RRep(ml),
     ab2 \in IF ml = <<>> THEN {<<>>} ELSE {<<>>, <<ml[Len(ml)]>>}}
Rows(ab) == UNION {RowsFor(ml): ml \in ModLists(ab)}
RepOnlysFor(ml) == {[ty |-> "reponly", mods |-> ml, key |-> k, rep |-> r]: k \in {"A", "S", "J"}, r \in SRep(ml) \ {Normal}}
RepOnlys(ab) == UNION {RepOnlysFor(ml): ml \in ModLists(ab)}

\* every printable character and space at the first / last (and, Size 2, a middle and the position beyond the
\* shortest row) position of every row, with and without RIGHTSHIFT on the trigger side
PadTo(n, c) == [i \in 1..n |-> IF i = n THEN c ELSE " "]
Positions == IF Size >= 2 THEN {1, 5, 10, 11} ELSE {1, 10}
CharProgs ==
  {<< [ty |-> "row", mods |-> ml, row |-> r, tomods |-> <<>>, letters |-> PadTo(n, c), rep |-> Normal, abs |-> <<>>] >>:
     ml \in {<<>>, <<K("RIGHTSHIFT")>>}, r \in {"`","1","Q","A","Z"}, n \in Positions, c \in Printable \cup {" "}}
  \* every position of every row (and two beyond the longest) with a plain and a shifted letter: the physical row tables, key by key
  \cup {<< [ty |-> "row", mods |-> <<>>, row |-> r, tomods |-> <<>>, letters |-> PadTo(n, c), rep |-> Normal, abs |-> <<>>] >>:
     r \in {"`","1","Q","A","Z"}, n \in 1..14, c \in {"x", "X"}}
  \* both Shift keys on the trigger side, in either order: right Shift wins whenever the trigger contains it
  \cup {<< [ty |-> "row", mods |-> ml, row |-> r, tomods |-> <<>>, letters |-> PadTo(2, c), rep |-> rp, abs |-> <<>>] >>:
     ml \in {<<K("LEFTSHIFT"), K("RIGHTSHIFT")>>, <<K("RIGHTSHIFT"), K("LEFTSHIFT")>>}, r \in {"1", "A"}, c \in {"A", "a", "!", ";", "|"},
     rp \in {Normal, [kind |-> "Special", tomods |-> <<>>, letters |-> <<" ", "B">>, delay |-> 50, interval |-> 30]}}

Progs1 == UNION {{ab \o <<it>>: it \in Singles(ab) \cup Rows(ab) \cup RepOnlys(ab)}: ab \in AliasBlocks}
\* a mapping followed by a repeat-only entry (same or different trigger set, alias order swapped)
Plain(ab) == {s \in Singles(ab): s.rep = Normal /\ s.abs = <<>> /\ s.tomods = <<>>}
             \cup {r \in Rows(ab): r.rep = Normal /\ r.abs = <<>> /\ r.tomods = <<>> /\ r.row = "A"}
Progs2 == UNION {{ab \o <<it, ro>>: it \in Plain(ab), ro \in RepOnlys(ab)}: ab \in AliasBlocks}
\* the alias definitions AFTER their use, and a repeat-only entry BEFORE the mapping it adjusts
Progs3 == IF Size >= 2
          THEN UNION {{<<ro, it>> \o ab: it \in Plain(ab), ro \in {x \in RepOnlys(ab): x.key = "A" /\ x.rep = Disabled}}: ab \in AliasBlocks}
          \* (quick) the repeat-only entry first, the aliases in their usual place: clause order must not matter
          ELSE UNION {UNION {{ab \o <<ro, it>>: ro \in {x \in RepOnlys(ab): x.key = "A" /\ x.mods = it.mods}}: it \in {p \in Plain(ab): p.ty = "single"}}: ab \in AliasBlocks}
\* two mappings with the SAME trigger set (a row mapping and a single mapping overriding one of its keys, in either
\* order) and a repeat-only entry for that trigger: the repeat mode must reach every mapping of the trigger set
RowAS(ml) == [ty |-> "row", mods |-> ml, row |-> "A", tomods |-> <<>>, letters |-> <<"a", "o">>, rep |-> Normal, abs |-> <<>>]
SingleS(ml) == [ty |-> "single", mods |-> ml, key |-> "S", tomods |-> <<>>, toterm |-> <<"F13">>, rep |-> Normal, abs |-> <<>>]
RepS(ml, r) == [ty |-> "reponly", mods |-> ml, key |-> "S", rep |-> r]
Progs4 == UNION {UNION {{ab \o <<RowAS(ml), SingleS(ml), RepS(ml, r)>>, ab \o <<SingleS(ml), RowAS(ml), RepS(ml, r)>>, ab \o <<RepS(ml, r), RowAS(ml), SingleS(ml)>>}:
                         ml \in ModLists(ab), r \in {Disabled, [kind |-> "Special", tomods |-> <<>>, toterm |-> <<"F24">>, delay |-> 180, interval |-> 30]}}: ab \in AliasBlocks}
\* what a repeat-only entry must leave alone: the output modifiers and the absorbing list of the mapping it adjusts
Rich(ab) == {s \in Singles(ab): s.rep = Normal /\ (s.abs # <<>> \/ s.tomods # <<>>)}
Progs5 == UNION {UNION {{ab \o <<it, ro>>: ro \in {x \in RepOnlys(ab): x.key = "A" /\ x.mods = it.mods}}: it \in Rich(ab)}: ab \in AliasBlocks}
\* two mappings whose trigger lists are permutations of each other with different LAST keys (different mappings: the last key is
\* the trigger key) and a repeat-only entry for one of them: it must not reach the other
Perm(m, k, t) == [ty |-> "single", mods |-> <<K(m)>>, key |-> k, tomods |-> <<>>, toterm |-> <<t>>, rep |-> Normal, abs |-> <<>>]
Progs6 == {<<Perm("J", "A", "B"), Perm("A", "J", "F13"), [ty |-> "reponly", mods |-> <<K("J")>>, key |-> "A", rep |-> r]>>: r \in {Disabled, [kind |-> "Special", tomods |-> <<>>, toterm |-> <<"F24">>, delay |-> 180, interval |-> 30]}}
          \cup {<<Perm("LEFTSHIFT", "RIGHTSHIFT", "B"), Perm("RIGHTSHIFT", "LEFTSHIFT", "F13"), [ty |-> "reponly", mods |-> <<K("LEFTSHIFT")>>, key |-> "RIGHTSHIFT", rep |-> Disabled]>>,
                 <<[ty |-> "reponly", mods |-> <<K("A")>>, key |-> "J", rep |-> Disabled], Perm("J", "A", "B")>>}
\* alias definitions AFTER a mapping that uses them (at every Size): all of them after it, and one definition before it with the rest after it -
\* the meaning of a program does not depend on where in the file an alias is defined
UsesAlias(it) == \E i \in 1..Len(it.mods): it.mods[i].alias
Progs7 == UNION {UNION {{<<it>> \o ab, <<ab[1], it>> \o Tail(ab)}: it \in {q \in Plain(ab): UsesAlias(q)}}: ab \in AliasBlocks \ {<<>>}}
Progs == SetToSeq(Progs1 \cup Progs2 \cup Progs3 \cup Progs4 \cup Progs5 \cup Progs6 \cup Progs7 \cup CharProgs)

Sp0 == [bare |-> TRUE, lower |-> FALSE, explicit |-> FALSE]
Sp1 == [bare |-> FALSE, lower |-> TRUE, explicit |-> TRUE]

ASSUME PrintT(<<"GENERATED", Len(Progs), Cardinality(Progs1), Cardinality(Progs2), Cardinality(Progs3), Cardinality(Progs4), Cardinality(Progs5), Cardinality(CharProgs)>>)
ASSUME LET ps == Progs
           n == IF Shard > Len(ps) THEN 0 ELSE (Len(ps) - Shard) \div NShards + 1
       IN ndJsonSerialize(IOEnv.OUT, [j \in 1..n |-> LET i == Shard + (j - 1) * NShards IN
                                                      [id |-> i, json |-> Render(ps[i], Sp0), json2 |-> Render(ps[i], Sp1), expect |-> Expand(ps[i])]])
VARIABLE x
Init == x = 0
Next == x' = x
=============================================================================
