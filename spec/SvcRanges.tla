------------------------------ MODULE SvcRanges ------------------------------
(***************************************************************************)
(* C17, "every single Unicode scalar".  The recorder ran the real encoder  *)
(* on all 1 112 063 scalars and reports, as ranges, those it writes into    *)
(* the line unchanged.  An unchanged scalar is right exactly when the       *)
(* reader copies it verbatim as a one-character word.  Which scalars the    *)
(* reader does NOT treat that way is computed here from the decoder itself, *)
(* concretely for every code point below Horizon; every constant the        *)
(* decoder compares a character with is below 128, so all code points from  *)
(* 128 up to the first marker value fall into one class, represented by the *)
(* ones between 128 and Horizon.  No identity range may contain an unsafe   *)
(* scalar.                                                                  *)
(***************************************************************************)
EXTENDS SvcDefs
Horizon == 600
Hd == Res[1]
LineFor(c) == Hd.prefix \o <<c>> \o Hd.suffix
Unsafe == {c \in 1..Horizon: Verdict([o |-> "ok", line |-> LineFor(c), pats |-> << <<c>> >>]) # {}}
RJudge(i) == LET u == Unsafe IN
             \A c \in u: (Res[i].lo <= c /\ c <= Res[i].hi) =>
                PrintT(<<IF {"C17-unescaped-special-scalar"} \subseteq KnownIds THEN "KNOWN" ELSE "BAD", c, {"C17-unescaped-special-scalar"}>>)
ASSUME \A i \in 2..Len(Res): RJudge(i)
ASSUME PrintT(<<"UNSAFE-SINGLES", Unsafe>>)
ASSUME PrintT(<<"JUDGED", Len(Res) - 1, Len(Res) - 1>>)
VARIABLE x
Init == x = 0
Next == x' = x
=============================================================================
