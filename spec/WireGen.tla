------------------------------- MODULE WireGen -------------------------------
(***************************************************************************)
(* Case generator for C18.  KEYS = ndjson {name, code} of every key the     *)
(* tool knows (`tmv keys`).  Cases: every key, pressed and released, as a   *)
(* one-event batch; every batch of length 0..MaxLen over a small event      *)
(* alphabet; every interleaving (length <= MaxItems) of batches with        *)
(* foreign records on the read side: auto-repeat, MSC, ABS, SYN (REPORT,    *)
(* DROPPED, MT_REPORT), unknown                                              *)
(* code, out-of-range value, a raw valid key record.                        *)
(***************************************************************************)
EXTENDS Integers, Sequences, FiniteSets, SequencesExt, TLC, Json, IOUtils
CONSTANTS MaxLen, MaxItems
KeyTab == ndJsonDeserialize(IOEnv.KEYS)
P(k) == [t |-> "P", k |-> k]
R(k) == [t |-> "R", k |-> k]
Names == {KeyTab[i].name: i \in 1..Len(KeyTab)}
LastName == KeyTab[Len(KeyTab)].name
Small == {P("A"), R("A"), P("LEFTSHIFT"), R("ESC"), P(LastName)}
RECURSIVE SeqsUpTo(_, _)
SeqsUpTo(S, n) == IF n = 0 THEN {<<>>} ELSE LET prev == SeqsUpTo(S, n - 1) IN prev \cup {Append(s, x): s \in {q \in prev: Len(q) = n - 1}, x \in S}
B(b) == [batch |-> b]
Raw(t, c, v) == [raw |-> <<t, c, v>>]
Singles == {<<B(<<P(k)>>)>>: k \in Names} \cup {<<B(<<R(k)>>)>>: k \in Names}
Batches == {<<B(b)>>: b \in SeqsUpTo(Small, MaxLen)}
Items == {B(<<P("A"), R("A")>>), B(<<>>), B(<<R("LEFTSHIFT")>>),
          Raw(1, 30, 2), Raw(4, 4, 30), Raw(3, 0, 5), Raw(0, 0, 0), Raw(1, 767, 1), Raw(1, 0, 1), Raw(1, 30, 3), Raw(1, 30, -1),
          Raw(1, 30, 1), Raw(1, 48, 0), Raw(17, 1, 1), Raw(2, 8, 1), Raw(4, 4, 1), Raw(1, 84, 1), Raw(5, 1, 1), Raw(5, 1, 0), Raw(5, 0, 1), Raw(5, 1, 2),
          \* SYN_DROPPED (the kernel overran the client buffer; what follows are genuine records), SYN_MT_REPORT
          Raw(0, 3, 0), Raw(0, 2, 0)}
Mixed == {s \in SeqsUpTo(Items, MaxItems): s # <<>>}
\* the consumer of the virtual keyboard does not read: the descriptor is full when the batch is sent (send must not report success for bytes it did not write)
Full(b) == [batch |-> b, full |-> TRUE]
SmallBatches == {b \in SeqsUpTo(Small, 2): b # <<>>}
Stalled == {<<Full(b)>>: b \in SmallBatches} \cup {<<B(<<P("A")>>), Full(b), B(<<R("LEFTSHIFT")>>)>>: b \in SmallBatches}
Cases == SetToSeq(Singles \cup Batches \cup Mixed \cup Stalled)
ASSUME ndJsonSerialize(IOEnv.OUT, [i \in 1..Len(Cases) |-> [id |-> i, writes |-> Cases[i]]])
ASSUME PrintT(<<"GENERATED", Len(Cases)>>)
VARIABLE x
Init == x = 0
Next == x' = x
=============================================================================
