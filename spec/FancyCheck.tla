----------------------------- MODULE FancyCheck -----------------------------
(***************************************************************************)
(* Judge for C13 (and the no-panic half of C14 on valid programs).          *)
(* CASES = ndjson written by FancyGen (program in two spellings + reference *)
(* expansion); RESULTS = ndjson written by `tmv load` (what the real         *)
(* parse_layout_from_json + convert returned for both spellings), same order.*)
(* The real result must equal the reference expansion block by block:       *)
(* order-sensitive between source mappings, a multiset inside one source    *)
(* mapping; both spellings must convert identically.  A disagreement about  *)
(* ACCEPTING a program is DRIFT, not a violation (C13 says nothing about it).*)
(***************************************************************************)
EXTENDS Naturals, Sequences, FiniteSets, SequencesExt, TLC, Json, IOUtils
CONSTANTS KnownIds, Prop

Cases == ndJsonDeserialize(IOEnv.CASES)
Res == ndJsonDeserialize(IOEnv.RESULTS)

RangeOf(s) == {s[i]: i \in 1..Len(s)}
Count(s, x) == Cardinality({i \in 1..Len(s): s[i] = x})
SameBag(a, b) == Len(a) = Len(b) /\ \A x \in RangeOf(a) \cup RangeOf(b): Count(a, x) = Count(b, x)
RECURSIVE SumTo(_, _)
SumTo(s, n) == IF n = 0 THEN 0 ELSE s[n] + SumTo(s, n - 1)

\* block-wise comparison of the actual mapping list with the expected one
BlockwiseEqual(exp, act) ==
  LET sizes == exp.blocks \o exp.tailblocks      \* first pass blocks, then the appended identity mappings per repeat-only item
      nb == Len(sizes)
  IN /\ Len(act) = Len(exp.mappings)
     /\ SumTo(sizes, nb) = Len(exp.mappings)
     /\ \A n \in 1..nb: LET lo == SumTo(sizes, n - 1) IN
                          SameBag(SubSeq(exp.mappings, lo + 1, lo + sizes[n]), SubSeq(act, lo + 1, lo + sizes[n]))

Verdict(c, r) ==
  (IF r.r1.o = "panic" \/ r.r2.o = "panic" THEN {"C14-loader-panic"} ELSE {})
  \cup (IF Prop = "C13" /\ c.expect.ok /\ r.r1.o = "ok" /\ ~BlockwiseEqual(c.expect, r.r1.mappings) THEN {"C13-expansion-differs"} ELSE {})
  \* the shorthand program is refused although the same layout written out by hand (the reference expansion as basic mappings,
  \* r.wo = what the real loader makes of that) converts: "converts to the same basic mappings as the layout ... written out by hand"
  \cup (IF Prop = "C13" /\ c.expect.ok /\ r.r1.o = "err" /\ r.wo = "ok" THEN {"C13-shorthand-refused-but-written-out-form-converts"} ELSE {})
  \cup (IF Prop = "C13" /\ (r.r1.o # r.r2.o \/ r.r1.mappings # r.r2.mappings) /\ r.r1.o # "panic" /\ r.r2.o # "panic" THEN {"C13-spellings-differ"} ELSE {})

Drift(c, r) == r.r1.o # "panic" /\ c.expect.ok # (r.r1.o = "ok")

Judge(i) == LET c == Cases[i]  r == Res[i]  v == Verdict(c, r) IN
            /\ Assert(c.id = r.id, "cases and results out of step")
            /\ (v # {} => PrintT(<<IF v \subseteq KnownIds THEN "KNOWN" ELSE "BAD", r.id, v>>))
            /\ (Drift(c, r) => PrintT(<<"DRIFT", r.id, "accept/reject differs from Fancy!Expand", c.expect.ok, r.r1.o, r.r1.msg>>))
ASSUME Len(Cases) = Len(Res)
ASSUME \A i \in 1..Len(Res): Judge(i)
\* non-trivial: the program is accepted and expands to at least one mapping
ASSUME PrintT(<<"JUDGED", Len(Res), Cardinality({i \in 1..Len(Res): Cases[i].expect.ok /\ Cases[i].expect.mappings # <<>>}),
                Cardinality({i \in 1..Len(Res): Res[i].r1.o = "ok"}), Cardinality({i \in 1..Len(Res): Res[i].r1.o = "err"})>>)
VARIABLE x
Init == x = 0
Next == x' = x
=============================================================================
