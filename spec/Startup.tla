------------------------------ MODULE Startup ------------------------------
(***************************************************************************)
(* Device start-up: DevInputReader::open(path, WaitReleaseAndExclude) as    *)
(* open_device uses it (src/dev_input_rw.rs: do_exclusion_loop,              *)
(* wait_for_any_activity), together with the kernel side it talks to        *)
(* (drivers/input/evdev.c): the device's key state, the client's event      *)
(* buffer, EVIOCGKEY, EVIOCGRAB.  Not one of the listed properties: this    *)
(* is the precondition C01 silently relies on ("the loop starts with no     *)
(* key held"), written down and checked for what it does and does not give. *)
(*                                                                         *)
(* The opener:   gkey: snapshot the key state (EVIOCGKEY);                   *)
(*                     nothing down -> grab, else read                       *)
(*               read: one event from the buffer -> gkey;  EAGAIN -> poll    *)
(*               poll: block until the buffer is readable (consumes nothing) *)
(*                     -> gkey                                               *)
(*               grab: EVIOCGRAB, done                                       *)
(* The kernel:   every press/release changes the key state and is appended   *)
(*               to the client's buffer; before the grab it also reaches the *)
(*               rest of the system (`leaked`).                              *)
(***************************************************************************)
EXTENDS Naturals, Sequences, FiniteSets, SequencesExt, TLC, Json

CONSTANTS Keys,        \* keys of the device
          MaxEvents,   \* bound on press/release events during start-up
          Emit         \* print the environment's choices of every finished behaviour

VARIABLES down,     \* keys physically down
          buf,      \* the client's unread events
          pc,       \* "gkey" | "read" | "poll" | "grab" | "done"
          snap,     \* what the last EVIOCGKEY reported
          grabbed,
          nev,      \* events so far
          leaked,   \* events the rest of the system saw (device not grabbed yet)
          sched     \* history: initial key state, arrivals and opener calls in order
vars == <<down, buf, pc, snap, grabbed, nev, leaked, sched>>

Ev(t, k) == [t |-> t, k |-> k]
Lbl(a, t, k) == [a |-> a, t |-> t, k |-> k]
Log(l) == sched' = Append(sched, l)

Init == /\ down \in SUBSET Keys /\ buf = <<>> /\ pc = "gkey" /\ snap = {} /\ grabbed = FALSE /\ nev = 0 /\ leaked = <<>>
        /\ sched = LET s == SetToSeq(down) IN [i \in 1..Len(s) |-> Lbl("held", "", s[i])]     \* the keys that are down when the device is opened

(* ---- kernel ---- *)
Press(k) == /\ k \notin down /\ nev < MaxEvents
            /\ down' = down \cup {k} /\ buf' = Append(buf, Ev("P", k)) /\ nev' = nev + 1
            /\ leaked' = (IF grabbed THEN leaked ELSE Append(leaked, Ev("P", k)))
            /\ Log(Lbl("arrK", "P", k)) /\ UNCHANGED <<pc, snap, grabbed>>
Release(k) == /\ k \in down /\ nev < MaxEvents
              /\ down' = down \ {k} /\ buf' = Append(buf, Ev("R", k)) /\ nev' = nev + 1
              /\ leaked' = (IF grabbed THEN leaked ELSE Append(leaked, Ev("R", k)))
              /\ Log(Lbl("arrK", "R", k)) /\ UNCHANGED <<pc, snap, grabbed>>
Kernel == pc # "done" /\ \E k \in Keys: Press(k) \/ Release(k)

(* ---- opener ---- *)
GKey == /\ pc = "gkey" /\ snap' = down /\ pc' = (IF down = {} THEN "grab" ELSE "read")
        /\ Log(Lbl("gkey", "", "")) /\ UNCHANGED <<down, buf, grabbed, nev, leaked>>
Read == /\ pc = "read"
        /\ IF buf # <<>> THEN buf' = Tail(buf) /\ pc' = "gkey" ELSE buf' = buf /\ pc' = "poll"
        /\ Log(Lbl("read", "", "")) /\ UNCHANGED <<down, snap, grabbed, nev, leaked>>
Poll == /\ pc = "poll" /\ buf # <<>> /\ pc' = "gkey"
        /\ Log(Lbl("poll", "", "")) /\ UNCHANGED <<down, buf, snap, grabbed, nev, leaked>>
Grab == /\ pc = "grab" /\ grabbed' = TRUE /\ pc' = "done"
        /\ Log(Lbl("grab", "", "")) /\ UNCHANGED <<down, buf, snap, nev, leaked>>
Opener == GKey \/ Read \/ Poll \/ Grab

Next == Kernel \/ Opener
Spec == Init /\ [][Next]_vars
FairSpec == Spec /\ WF_vars(Opener)

(* ---- what the start-up gives ---- *)
TypeOK == /\ down \subseteq Keys /\ pc \in {"gkey", "read", "poll", "grab", "done"} /\ snap \subseteq Keys /\ grabbed \in BOOLEAN
GrabOnlyAfterQuietSnapshot == pc = "grab" => snap = {}
GrabbedIffDone == grabbed <=> pc = "done"
\* the opener never spins: it is back at gkey only after consuming an event or after being woken up
\* (structural in this machine; the trace validation checks that the real call sequence follows it)

\* if the keys are all released in the end, the device is grabbed in the end
Settles == (<>[](down = {})) => <>grabbed

(* ---- what it does NOT give: expected to be REACHABLE (TLC reports a counterexample to the negation) ---- *)
\* a key pressed between the snapshot and the grab is down when the loop starts
NoKeyDownAtGrab == ~(grabbed /\ down # {})
\* events typed before the grab are still in the buffer at the grab: the loop will read them and map them,
\* although the rest of the system has already seen them ungrabbed
NothingLeftAtGrab == ~(grabbed /\ buf # <<>>)
\* ... including whole keystrokes (a press and its release)
NoKeystrokeReplayed == ~(grabbed /\ \E i, j \in 1..Len(buf): i < j /\ buf[i].t = "P" /\ buf[j].t = "R" /\ buf[i].k = buf[j].k)

(* ---- schedules out ---- *)
Finished == pc = "done"
EmitSchedule == (Emit /\ Finished) => PrintT(<<"SCHEDULE", ToJson(sched)>>)
=============================================================================
