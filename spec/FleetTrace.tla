----------------------------- MODULE FleetTrace -----------------------------
(***************************************************************************)
(* Trace validation of the REAL static fleet: do_remapping_loop_all_devices *)
(* (`remap --all-keyboards`) and do_remapping_loop_multiple_devices          *)
(* (`remap --dev-file ... --only-if-keyboard`), both with the real           *)
(* list_keyboards / list_input_devices / flag_excluded* /                     *)
(* filter_devices_verbose on a fabricated /proc, /sys and /dev/input, the     *)
(* real open_device, the real worker threads and the real joins              *)
(* (`tmv fleet`), against the machine of spec/Fleet.tla.                      *)
(* TRACE = ndjson: per run a `reset` line (mode, the device universe, which   *)
(* devices are in the kernel's list, which cannot be opened, which paths      *)
(* were given), the recorded calls (kopen, grab, uopen, created), the          *)
(* environment's records (settled, wend, returned, noworker, hang), a `ret`.  *)
(*                                                                           *)
(* Clauses.  C16-fleet-...: what C16 says about selection, seen where the     *)
(* devices are actually OPENED on these two discovery paths (a device outside *)
(* the selectable keyboards is opened; a selectable keyboard that is in the   *)
(* kernel's list - and, with --dev-file, was given - is not opened although   *)
(* no open failed).  FL-...: the fleet's own obligations (Fleet.tla's          *)
(* invariants), not listed properties: reported as auxiliary findings, never  *)
(* as a VIOLATION.  ENV-...: the recorder misbehaved (tool error).            *)
(***************************************************************************)
EXTENDS Naturals, Sequences, FiniteSets, TLC, TLCExt, Json, IOUtils

Rec == ndJsonDeserialize(IOEnv.TRACE)
N == Len(Rec)

VARIABLES l, cur, hdr, opens, failedopen, started, wres, returned, earlyret, viol, flushed
vars == <<l, cur, hdr, opens, failedopen, started, wres, returned, earlyret, viol, flushed>>

\* registers: 1 runs, 2 open attempts, 3 workers started, 4 workers ended, 5 runs that returned a worker's error, 6 runs that returned an open error,
\*            7 runs that returned Ok, 8 runs in which a worker had failed while the function was still joining an earlier one (observation 1 of Fleet.tla)
NReg == 8
Bump(i) == TLCSet(i, TLCGet(i) + 1)
BumpIf(c, i) == c => Bump(i)
Tag(c, t) == IF c THEN {t} ELSE {}
SeqSet(s) == {s[i]: i \in 1..Len(s)}
NoHdr == [id |-> "", mode |-> "", devs |-> <<>>, present |-> <<>>, bad |-> <<>>, given |-> <<>>]

Init == /\ l = 1 /\ cur = "" /\ hdr = NoHdr /\ opens = <<>> /\ failedopen = FALSE /\ started = <<>> /\ wres = <<>> /\ returned = FALSE /\ earlyret = FALSE
        /\ viol = {} /\ flushed = FALSE
        /\ \A i \in 1..NReg: TLCSet(i, 0)

Report(id, v) == v # {} => PrintT(<<"FL-BAD", id, v>>)

\* the keyboards this run must serve: selectable (the dynamic universe), in the kernel's list and, with --dev-file, among the given paths
Wanted(h) == {d \in SeqSet(h.devs): d \in SeqSet(h.present) /\ (h.mode = "all" \/ d \in SeqSet(h.given))}
WantedSeq(h) == SelectSeq(h.devs, LAMBDA d: d \in Wanted(h))
Res(d) == IF d \in DOMAIN wres THEN wres[d] ELSE "run"
\* the join condition of Fleet.tla on the workers that were started, in the order they were started
JoinResult == LET firstbad == {j \in 1..Len(started): Res(started[j]) # "ok"}
              IN IF firstbad = {} THEN "ok"
                 ELSE LET j == CHOOSE x \in firstbad: \A y \in firstbad: x <= y
                      IN IF Res(started[j]) = "err" THEN "err" ELSE "blocked"

Step(r) ==
  CASE r.c = "kopen" ->
         LET sel == r.d \in SeqSet(hdr.devs)
             want == IF r.d \notin SeqSet(hdr.present) THEN "enoent" ELSE IF r.d \in SeqSet(hdr.bad) THEN "eacces" ELSE "ok"
         IN /\ viol' = viol \cup Tag(~sel \/ r.d \notin Wanted(hdr), "C16-fleet-device-outside-the-selected-keyboards-opened")
                            \cup Tag(sel /\ r.d \in SeqSet(opens), "FL-device-opened-twice")
                            \cup Tag(sel /\ r.res # want, "ENV-open-answer")
                            \cup Tag(failedopen, "FL-open-after-a-failed-open")
            /\ opens' = Append(opens, r.d)
            /\ failedopen' = (failedopen \/ r.res # "ok")
            /\ Bump(2)
            /\ UNCHANGED <<started, wres, returned, earlyret>>
    [] r.c = "created" ->
         \* the uinput device exists: open_device is through for this keyboard
         /\ started' = Append(started, r.d) /\ Bump(3)
         /\ UNCHANGED <<opens, failedopen, wres, returned, earlyret, viol>>
    [] r.c = "wend" ->
         /\ viol' = viol \cup Tag(~r.exited, "ENV-worker-thread-did-not-exit")
         /\ wres' = [d \in DOMAIN wres \cup {r.d} |-> IF d = r.d THEN r.res ELSE wres[d]]
         /\ Bump(4)
         /\ BumpIf(~returned /\ r.res = "err" /\ (LET w2 == [d \in DOMAIN wres \cup {r.d} |-> IF d = r.d THEN r.res ELSE wres[d]]
                                                   IN \E j \in 1..Len(started): started[j] # r.d /\ (started[j] \notin DOMAIN w2)
                                                          /\ \E k \in 1..Len(started): started[k] = r.d /\ j < k), 8)
         /\ UNCHANGED <<opens, failedopen, started, returned, earlyret>>
    [] r.c = "returned" ->
         \* first moment the function was seen to have returned
         /\ returned' = TRUE
         /\ earlyret' = (~failedopen /\ JoinResult = "blocked" /\ started # <<>>)
         /\ UNCHANGED <<opens, failedopen, started, wres, viol>>
    [] r.c = "noworker" ->
         /\ viol' = viol \cup Tag(~returned, "FL-no-worker-where-Fleet-tla-has-one")
         /\ UNCHANGED <<opens, failedopen, started, wres, returned, earlyret>>
    [] r.c = "ret" ->
         LET missing == Wanted(hdr) \ SeqSet(opens)
             jr == JoinResult
         IN /\ viol' = viol \cup Tag(~failedopen /\ missing # {}, "C16-fleet-selected-keyboard-not-opened")
                            \cup Tag(~failedopen /\ missing = {} /\ opens # WantedSeq(hdr) /\ SeqSet(opens) = Wanted(hdr), "FL-devices-not-opened-in-list-order")
                            \cup Tag(failedopen /\ r.res # "err", "FL-open-failure-not-reported")
                            \cup Tag(r.res = "panic", "FL-panicked")
                            \cup Tag(r.hang, "FL-did-not-return-although-every-worker-had-ended")
                            \cup Tag(earlyret, "FL-returned-while-an-earlier-listed-worker-was-still-running")
                            \cup Tag(~failedopen /\ ~r.hang /\ ~earlyret /\ jr = "ok" /\ r.res # "ok", "FL-error-returned-although-every-worker-ended-well")
                            \cup Tag(~failedopen /\ ~r.hang /\ jr = "err" /\ r.res # "err", "FL-worker-error-not-returned")
            /\ BumpIf(~failedopen /\ r.res = "err", 5) /\ BumpIf(failedopen /\ r.res = "err", 6) /\ BumpIf(r.res = "ok", 7)
            /\ UNCHANGED <<opens, failedopen, started, wres, returned, earlyret>>
    [] OTHER ->   \* grab, uopen, settled, hang, list, msg
         UNCHANGED <<opens, failedopen, started, wres, returned, earlyret, viol>>

ConsumeLine ==
  /\ l <= N /\ l' = l + 1 /\ flushed' = FALSE
  /\ LET r == Rec[l] IN
     IF r.c = "reset"
     THEN /\ Report(cur, viol)
          /\ cur' = r.id /\ hdr' = r /\ opens' = <<>> /\ failedopen' = FALSE /\ started' = <<>> /\ wres' = <<>> /\ returned' = FALSE /\ earlyret' = FALSE /\ viol' = {}
          /\ Bump(1)
     ELSE Step(r) /\ UNCHANGED <<cur, hdr>>

Flush == /\ l = N + 1 /\ ~flushed /\ flushed' = TRUE /\ Report(cur, viol)
         /\ UNCHANGED <<l, cur, hdr, opens, failedopen, started, wres, returned, earlyret, viol>>

Next == ConsumeLine \/ Flush
Spec == Init /\ [][Next]_vars
Accepted == PrintT(<<"FL-ACCEPTED", TLCGet("stats").diameter - 2, N, [i \in 1..NReg |-> TLCGet(i)]>>)
=============================================================================
