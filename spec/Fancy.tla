------------------------------- MODULE Fancy -------------------------------
(***************************************************************************)
(* The layout language (properties C13, C14, C15): abstract syntax of       *)
(* layout programs, their rendering as the JSON the loader reads (with       *)
(* spelling choices), and the reference meaning Expand(P): the hand-written  *)
(* expansion of every shorthand into basic mappings.  The character table    *)
(* (CharKey) and the rows (RowKeys) are an independent transcription of a    *)
(* US-QWERTY keyboard, not a copy of the tool's tables.                      *)
(*                                                                          *)
(* Items: [ty |-> "alias", from, extra, name]                               *)
(*        [ty |-> "single", mods, key, tomods, toterm, rep, abs]            *)
(*        [ty |-> "row", mods, row, tomods, letters, rep, abs]              *)
(*        [ty |-> "reponly", mods, key, rep]                                *)
(* modifiers are K(key) or A("@alias"); letters are sequences of one-       *)
(* character strings (TLC cannot index strings).                             *)
(*                                                                          *)
(* Expand(P) = [ok, blocks, tailblocks, mappings]: `mappings` in the order   *)
(* the statement fixes (source order between source mappings); blocks[n] =   *)
(* how many of them source item n contributed in the first pass,             *)
(* tailblocks[n] = how many identity mappings repeat-only item n appended.   *)
(* Inside one block the order is not significant.                            *)
(***************************************************************************)
EXTENDS Naturals, Sequences, FiniteSets, SequencesExt

StdMods == {"LEFTSHIFT","RIGHTSHIFT","LEFTMETA","RIGHTMETA","LEFTCTRL","RIGHTCTRL","LEFTALT","RIGHTALT"}

SeqSetOf(s) == {s[i]: i \in 1..Len(s)}
K(k) == [alias |-> FALSE, v |-> k]
A(n) == [alias |-> TRUE, v |-> n]

RowKeys(r) ==
  CASE r = "`" -> <<"GRAVE","1","2","3","4","5","6","7","8","9","0","MINUS","EQUAL">>
    [] r = "1" -> <<"1","2","3","4","5","6","7","8","9","0","MINUS","EQUAL">>
    [] r = "Q" -> <<"Q","W","E","R","T","Y","U","I","O","P","LEFTBRACE","RIGHTBRACE">>
    [] r = "A" -> <<"A","S","D","F","G","H","J","K","L","SEMICOLON","APOSTROPHE">>
    [] r = "Z" -> <<"Z","X","C","V","B","N","M","COMMA","DOT","SLASH">>

\* US-QWERTY: character |-> <<needs shift, key name>> ; independent transcription
Lower == <<"a","b","c","d","e","f","g","h","i","j","k","l","m","n","o","p","q","r","s","t","u","v","w","x","y","z">>
Upper == <<"A","B","C","D","E","F","G","H","I","J","K","L","M","N","O","P","Q","R","S","T","U","V","W","X","Y","Z">>
Digits == <<"1","2","3","4","5","6","7","8","9","0">>
ShDigits == <<"!","@","#","$","%","^","&","*","(",")">>
Punct == << <<"`","~","GRAVE">>, <<"-","_","MINUS">>, <<"=","+","EQUAL">>, <<"[","{","LEFTBRACE">>, <<"]","}","RIGHTBRACE">>,
            <<";",":","SEMICOLON">>, <<"'","\"","APOSTROPHE">>, <<",","<","COMMA">>, <<".",">","DOT">>, <<"/","?","SLASH">>,
            <<"\\","|","BACKSLASH">> >>
CharKey(c) ==
  IF \E i \in 1..26: Lower[i] = c THEN <<FALSE, Upper[CHOOSE i \in 1..26: Lower[i] = c]>>
  ELSE IF \E i \in 1..26: Upper[i] = c THEN <<TRUE, c>>
  ELSE IF \E i \in 1..10: Digits[i] = c THEN <<FALSE, c>>
  ELSE IF \E i \in 1..10: ShDigits[i] = c THEN <<TRUE, Digits[CHOOSE i \in 1..10: ShDigits[i] = c]>>
  ELSE IF \E i \in 1..Len(Punct): Punct[i][1] = c THEN <<FALSE, Punct[CHOOSE i \in 1..Len(Punct): Punct[i][1] = c][3]>>
  ELSE IF \E i \in 1..Len(Punct): Punct[i][2] = c THEN <<TRUE, Punct[CHOOSE i \in 1..Len(Punct): Punct[i][2] = c][3]>>
  ELSE <<FALSE, "?">>
Printable == SeqSetOf(Lower) \cup SeqSetOf(Upper) \cup SeqSetOf(Digits) \cup SeqSetOf(ShDigits)
             \cup {Punct[i][1]: i \in 1..Len(Punct)} \cup {Punct[i][2]: i \in 1..Len(Punct)}

(* ------------------------- rendering to JSON values ------------------------- *)
RECURSIVE Join(_)
Join(cs) == IF cs = <<>> THEN "" ELSE Head(cs) \o Join(Tail(cs))
ModJ(m) == m.v
ListOrBare(xs, bare) == IF bare /\ Len(xs) = 1 THEN xs[1] ELSE xs
SingleToJ(tomods, toterm, bare) ==
  IF toterm = <<>> THEN <<>> ELSE ListOrBare([i \in 1..Len(tomods) |-> ModJ(tomods[i])] \o toterm, bare)
RowToJ(tomods, letters, bare) ==
  IF bare /\ tomods = <<>> THEN [letters |-> Join(letters)]
  ELSE [i \in 1..Len(tomods) |-> ModJ(tomods[i])] \o <<[letters |-> Join(letters)]>>
RepSJ(r, sp) ==
  CASE r.kind = "Normal" -> IF sp.lower THEN "normal" ELSE "Normal"
    [] r.kind = "Disabled" -> IF sp.lower THEN "disabled" ELSE "Disabled"
    [] r.kind = "Special" -> [Special |-> [keys |-> SingleToJ(r.tomods, r.toterm, sp.bare), delay_ms |-> r.delay, interval_ms |-> r.interval]]
RepRJ(r, sp) ==
  CASE r.kind = "Normal" -> IF sp.lower THEN "normal" ELSE "Normal"
    [] r.kind = "Disabled" -> IF sp.lower THEN "disabled" ELSE "Disabled"
    [] r.kind = "Special" -> [Special |-> [keys |-> RowToJ(r.tomods, r.letters, sp.bare), delay_ms |-> r.delay, interval_ms |-> r.interval]]
LowerRow(r) == CASE r = "Q" -> "q" [] r = "A" -> "a" [] r = "Z" -> "z" [] OTHER -> r
ItemJ(it, sp) ==
  CASE it.ty = "alias" ->
         [from |-> ListOrBare(it.from, sp.bare), to |-> ListOrBare(it.extra \o <<it.name>>, sp.bare)]
    [] it.ty = "single" ->
         LET base == [from |-> ListOrBare([i \in 1..Len(it.mods) |-> ModJ(it.mods[i])] \o <<it.key>>, sp.bare),
                      to |-> SingleToJ(it.tomods, it.toterm, sp.bare)]
             withRep == IF it.rep.kind = "Normal" /\ ~sp.explicit THEN base ELSE base @@ [repeat |-> RepSJ(it.rep, sp)]
         IN IF it.abs = <<>> /\ ~sp.explicit THEN withRep
            ELSE withRep @@ [absorbing |-> ListOrBare([i \in 1..Len(it.abs) |-> ModJ(it.abs[i])], sp.bare)]
    [] it.ty = "row" ->
         LET rowObj == [row |-> IF sp.lower THEN LowerRow(it.row) ELSE it.row]
             base == [from |-> IF sp.bare /\ it.mods = <<>> THEN rowObj ELSE [i \in 1..Len(it.mods) |-> ModJ(it.mods[i])] \o <<rowObj>>,
                      to |-> RowToJ(it.tomods, it.letters, sp.bare)]
             withRep == IF it.rep.kind = "Normal" /\ ~sp.explicit THEN base ELSE base @@ [repeat |-> RepRJ(it.rep, sp)]
         IN IF it.abs = <<>> /\ ~sp.explicit THEN withRep
            ELSE withRep @@ [absorbing |-> ListOrBare([i \in 1..Len(it.abs) |-> ModJ(it.abs[i])], sp.bare)]
    [] it.ty = "reponly" ->
         [from |-> ListOrBare([i \in 1..Len(it.mods) |-> ModJ(it.mods[i])] \o <<it.key>>, sp.bare), repeat |-> RepSJ(it.rep, sp)]
Render(P, sp) == [mappings |-> [i \in 1..Len(P) |-> ItemJ(P[i], sp)]]

(* ------------------------------ reference expansion ------------------------------ *)
Defs(P, name) == SelectSeq(P, LAMBDA it: it.ty = "alias" /\ it.name = name)
AliasPos(mods) == SelectSeq([i \in 1..Len(mods) |-> i], LAMBDA i: mods[i].alias)     \* positions of alias modifiers
\* all choice tuples: one definition index per alias occurrence
RECURSIVE Tuples(_)
Tuples(qs) == IF qs = <<>> THEN {<<>>}
              ELSE {<<i>> \o t: i \in 1..Head(qs), t \in Tuples(Tail(qs))}
Combos(P, mods) == LET pos == AliasPos(mods) IN Tuples([j \in 1..Len(pos) |-> Len(Defs(P, mods[pos[j]].v))])
\* definition chosen for alias occurrence j (j-th alias in mods)
Chosen(P, mods, tup, j) == Defs(P, mods[AliasPos(mods)[j]].v)[tup[j]]
FromMods(P, mods, tup) ==
  LET pos == AliasPos(mods)
      piece(i) == IF mods[i].alias THEN Chosen(P, mods, tup, CHOOSE j \in 1..Len(pos): pos[j] = i).from ELSE <<mods[i].v>>
  IN FlattenSeq([i \in 1..Len(mods) |-> piece(i)])
\* alias on the output side: the definition chosen for its LAST occurrence on the trigger side
Reify(P, mods, tup, rhs) ==
  LET pos == AliasPos(mods)
      occ(n) == {j \in 1..Len(pos): mods[pos[j]].v = n}
      piece(m) == IF m.alias THEN Chosen(P, mods, tup, CHOOSE j \in occ(m.v): \A k \in occ(m.v): k <= j).from ELSE <<m.v>>
  IN FlattenSeq([i \in 1..Len(rhs) |-> piece(rhs[i])])
ReifyOK(mods, rhs) == \A i \in 1..Len(rhs): rhs[i].alias => \E j \in 1..Len(mods): mods[j] = rhs[i]

Normal == [kind |-> "Normal"]
Disabled == [kind |-> "Disabled"]
BM(f, t, r, a) == [from |-> f, to |-> t, repeat |-> r, absorbing |-> a]

SingleTo(P, mods, tup, tomods, toterm) == IF toterm = <<>> THEN <<>> ELSE Reify(P, mods, tup, tomods) \o toterm
SingleRep(P, mods, tup, r) ==
  IF r.kind = "Special" THEN [kind |-> "Special", keys |-> SingleTo(P, mods, tup, r.tomods, r.toterm), delay |-> r.delay, interval |-> r.interval]
  ELSE r
RowTo(hasRS, toMods, letters, i) ==      \* <<>> = unmapped, else <<keys>>
  IF i > Len(letters) \/ letters[i] = " " THEN <<>>
  ELSE LET ck == CharKey(letters[i]) IN
       << toMods \o (IF ck[1] THEN <<IF hasRS THEN "RIGHTSHIFT" ELSE "LEFTSHIFT">> ELSE <<>>) \o <<ck[2]>> >>

ExpandItem(P, it) ==      \* the block of one source mapping, as a sequence (order inside is not significant)
  CASE it.ty = "alias" ->
         IF Len(it.from) = 1 /\ it.from[1] \in StdMods THEN <<>> ELSE <<BM(it.from, it.extra, Normal, <<>>)>>
    [] it.ty = "single" ->
         LET cs == SetToSeq(Combos(P, it.mods)) IN
         [c \in 1..Len(cs) |->
            BM(FromMods(P, it.mods, cs[c]) \o <<it.key>>, SingleTo(P, it.mods, cs[c], it.tomods, it.toterm),
               SingleRep(P, it.mods, cs[c], it.rep), Reify(P, it.mods, cs[c], it.abs))]
    [] it.ty = "row" ->
         LET cs == SetToSeq(Combos(P, it.mods))
             rk == RowKeys(it.row)
             one(c) == LET fm == FromMods(P, it.mods, cs[c])
                           hasRS == \E x \in 1..Len(fm): fm[x] = "RIGHTSHIFT"
                           tm == Reify(P, it.mods, cs[c], it.tomods)
                           idx == SelectSeq([i \in 1..Len(it.letters) |-> i], LAMBDA i: RowTo(hasRS, tm, it.letters, i) # <<>>)
                           rep(i) == IF it.rep.kind # "Special" THEN it.rep
                                     ELSE LET rt == RowTo(hasRS, Reify(P, it.mods, cs[c], it.rep.tomods), it.rep.letters, i) IN
                                          IF rt = <<>> THEN Normal
                                          ELSE [kind |-> "Special", keys |-> rt[1], delay |-> it.rep.delay, interval |-> it.rep.interval]
                       IN [x \in 1..Len(idx) |-> BM(fm \o <<rk[idx[x]]>>, RowTo(hasRS, tm, it.letters, idx[x])[1], rep(idx[x]),
                                                     Reify(P, it.mods, cs[c], it.abs))]
         IN FlattenSeq([c \in 1..Len(cs) |-> one(c)])
    [] it.ty = "reponly" -> <<>>

BadLetters(ls) == \E i \in 1..Len(ls): (ls[i] # " " /\ ls[i] \notin Printable)
RowBad(it) == \/ Len(it.letters) > Len(RowKeys(it.row))
              \/ BadLetters(it.letters)
              \/ (it.rep.kind = "Special" /\ (Len(it.rep.letters) > Len(it.letters) \/ BadLetters(it.rep.letters)))
AbsBad(it) == \E i \in 1..Len(it.abs): ~(\E j \in 1..Len(it.mods): it.mods[j] = it.abs[i])
UndefAlias(P, it) == \E i \in 1..Len(it.mods): (it.mods[i].alias /\ Defs(P, it.mods[i].v) = <<>>)
ItemBad(P, it) ==
  IF it.ty = "alias" THEN FALSE
  ELSE \/ UndefAlias(P, it)
       \/ (it.ty \in {"single", "row"} /\ (~ReifyOK(it.mods, it.tomods) \/ ~ReifyOK(it.mods, it.abs) \/ AbsBad(it)))
       \/ (it.rep.kind = "Special" /\ ~ReifyOK(it.mods, it.rep.tomods))
       \/ (it.ty = "row" /\ RowBad(it))
Rejected(P) == \E n \in 1..Len(P): ItemBad(P, P[n])

\* "the same trigger set": the same final key and the same modifiers regardless of order - as a MULTISET, like the code
\* (a modifier written twice is not the same trigger as the modifier written once; such a mapping is rejected anyway)
ModBag(ms) == [k \in SeqSetOf(ms) |-> Cardinality({i \in 1..Len(ms): ms[i] = k})]
TriggerSet(from) == <<ModBag(SubSeq(from, 1, Len(from) - 1)), from[Len(from)]>>

\* repeat-only pass: in source order; entries whose trigger set exists set the repeat, others append an identity mapping
RECURSIVE RepeatPass(_, _, _, _)
RepeatPass(P, firstPass, acc, todo) ==
  IF todo = <<>> THEN acc
  ELSE LET e == Head(todo)       \* [from, rep]
           hits == {i \in 1..Len(firstPass): TriggerSet(firstPass[i].from) = TriggerSet(e.from)}
       IN IF hits # {}
          THEN RepeatPass(P, firstPass, [i \in 1..Len(acc) |-> IF i \in hits THEN [acc[i] EXCEPT !.repeat = e.rep] ELSE acc[i]], Tail(todo))
          ELSE RepeatPass(P, firstPass, Append(acc, BM(e.from, e.from, e.rep, <<>>)), Tail(todo))

RepeatEntries(P) ==
  FlattenSeq([n \in 1..Len(P) |->
     IF P[n].ty # "reponly" THEN <<>>
     ELSE LET it == P[n]  cs == SetToSeq(Combos(P, it.mods)) IN
          [c \in 1..Len(cs) |-> [from |-> FromMods(P, it.mods, cs[c]) \o <<it.key>>, rep |-> SingleRep(P, it.mods, cs[c], it.rep)]]])

Blocks(P) == [n \in 1..Len(P) |-> ExpandItem(P, P[n])]
\* identity mappings appended by repeat-only item n: its entries whose trigger set no first-pass mapping has
TailCount(P, first, n) ==
  IF P[n].ty # "reponly" THEN 0
  ELSE LET it == P[n]  cs == Combos(P, it.mods) IN
       Cardinality({c \in cs: ~\E i \in 1..Len(first): TriggerSet(first[i].from) = TriggerSet(FromMods(P, it.mods, c) \o <<it.key>>)})
NoDupSeq(s) == \A i, j \in 1..Len(s): s[i] = s[j] => i = j
\* the mapper refuses a mapping that lists a key twice in its trigger or in its output, so the
\* loader must not accept a program that expands to one (C14)
HasDupKeys(ms) == \E i \in 1..Len(ms): ~NoDupSeq(ms[i].from) \/ ~NoDupSeq(ms[i].to)
Expand(P) ==
  IF Rejected(P) THEN [ok |-> FALSE, blocks |-> <<>>, tailblocks |-> <<>>, mappings |-> <<>>]
  ELSE LET bl == Blocks(P)
           first == FlattenSeq(bl)
           all == RepeatPass(P, first, first, RepeatEntries(P)) IN
       IF HasDupKeys(all) THEN [ok |-> FALSE, blocks |-> <<>>, tailblocks |-> <<>>, mappings |-> <<>>]
       ELSE [ok |-> TRUE, blocks |-> [n \in 1..Len(P) |-> Len(bl[n])],
             tailblocks |-> [n \in 1..Len(P) |-> TailCount(P, first, n)],
             mappings |-> all]
=============================================================================
