---------------------------- MODULE MapperSpecMC ----------------------------
(***************************************************************************)
(* Design-level model: the same property predicates as MapperImplMC, but    *)
(* the next-state relation is the specification Mapper!Step itself.  Used    *)
(* at bounds beyond those tabulated from the implementation (more keys held, *)
(* larger alphabets); it says what the DESIGN admits, the binding to the     *)
(* code is the conformance check of MapperImplMC at the tabulated bounds.    *)
(* LAYOUTS = one-line ndjson {layouts: [{id, layout, keys, maxheld}]}.       *)
(***************************************************************************)
EXTENDS Mapper, TLC, TLCExt, Json, IOUtils
MP == INSTANCE MapperProps
CONSTANTS Props, KnownIds, Tags

Hdr == ndJsonDeserialize(IOEnv.LAYOUTS)[1].layouts
NL == Len(Hdr)

VARIABLES li, st, phys, out, mon, viol, last
vars == <<li, st, phys, out, mon, viol, last>>
View == <<li, st, phys, out, mon, viol>>

TagIdx(t) == CHOOSE i \in 1..Len(Tags): Tags[i] = t
Count(ts) == \A t \in ts: (\E i \in 1..Len(Tags): Tags[i] = t) => TLCSet(TagIdx(t), TLCGet(TagIdx(t)) + 1)
AuxIdx == Len(Tags) + 1

Init == /\ li \in {i \in 1..NL: ValidLayout(Hdr[i].layout)}
        /\ st = InitState /\ phys = {} /\ out = {} /\ mon = MP!InitMon /\ viol = {}
        /\ last = [t |-> "-", k |-> ""]
        /\ \A i \in 1..(Len(Tags) + 1): TLCSet(i, 0)

Keys == MP!SeqSet(Hdr[li].keys)
Report(v) == v \cap KnownIds # {} => PrintT(<<"KNOWN", Hdr[li].id, v \cap KnownIds>>)

Do(e) ==
  LET layout == Hdr[li].layout
      r == Step(layout, st, e)
      c == MP!Check(Props, layout, Keys, st, phys, out, mon, e, r.st, r.ev, r.rep)
      ax == IF "AUX" \in Props THEN MP!Aux(layout, r.st) ELSE {}
  IN /\ st' = r.st /\ li' = li /\ last' = e
     /\ out' = MP!OutAfter(out, r.ev)
     /\ phys' = MP!PhysPost(phys, e)
     /\ mon' = MP!MonNext(Props, layout, st, phys, mon, e, r.st)
     /\ viol' = (c.v \ KnownIds) \cup ax
     /\ Report(c.v) /\ Count(c.a)

DoReleaseAll ==
  LET r == ReleaseAll(Hdr[li].layout, st)
      c == MP!CheckReleaseAll(Props, out, r.st, r.ev)
  IN /\ st' = r.st /\ li' = li /\ last' = [t |-> "RA", k |-> ""]
     /\ out' = MP!OutAfter(out, r.ev) /\ phys' = {} /\ mon' = MP!InitMon
     /\ viol' = c.v \ KnownIds /\ Report(c.v) /\ Count(c.a)

Next == /\ viol = {}
        /\ \/ \E k \in Keys:
                \/ (k \notin phys /\ Cardinality(phys) < Hdr[li].maxheld /\ Do(P(k)))
                \/ (k \in phys /\ Do(R(k)))
                \/ (k \in phys /\ Do(P(k)))
                \/ (k \notin phys /\ Do(R(k)))
           \/ ("RA" \in Props /\ DoReleaseAll)
Spec == Init /\ [][Next]_vars
NoViolation == viol = {}
Stats == PrintT(<<"COUNTERS", [i \in 1..(Len(Tags) + 1) |-> TLCGet(i)]>>)
=============================================================================
