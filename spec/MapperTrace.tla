----------------------------- MODULE MapperTrace -----------------------------
(***************************************************************************)
(* Trace validation of long random histories of the REAL mapper             *)
(* (`tmv walk`): large alphabets (the full key set of a built-in layout),    *)
(* up to 5-6 keys held, ill-formed events, occasional release_all - beyond    *)
(* the bounds of the exhaustive tables.  Each line carries the input event,   *)
(* the emitted events, the repeat instruction and the state snapshot after    *)
(* the step, so the trace spec is deterministic.  On every step TLC           *)
(* evaluates the property clauses of MapperProps (the same predicates as      *)
(* MapperImplMC) and compares the step with Mapper!Step (DRIFT).  Violations  *)
(* are collected per walk and printed with the index of the first offending   *)
(* step.                                                                    *)
(***************************************************************************)
EXTENDS Mapper, TLC, TLCExt, Json, IOUtils
MP == INSTANCE MapperProps
CONSTANTS Props, KnownIds

Rec == ndJsonDeserialize(IOEnv.TRACE)
N == Len(Rec)

VARIABLES l, cur, lay, lc, keys, st, phys, out, mon, viol, first, dead, flushed
vars == <<l, cur, lay, lc, keys, st, phys, out, mon, viol, first, dead, flushed>>

\* registers: 1 walks, 2 steps judged, 3 drifts, 4 steps with a mapping fired, 5 release_all steps
Bump(i) == TLCSet(i, TLCGet(i) + 1)
Init == /\ l = 1 /\ cur = "" /\ lay = <<>> /\ lc = MP!LayoutConsts(<<>>) /\ keys = {} /\ st = InitState /\ phys = {} /\ out = {} /\ mon = MP!InitMon
        /\ viol = {} /\ first = 0 /\ dead = FALSE /\ flushed = FALSE
        /\ \A i \in 1..5: TLCSet(i, 0)

Report(id, v, at) == /\ (v \ KnownIds # {} => PrintT(<<"BAD", id, v \ KnownIds, at>>))
                     /\ (v \cap KnownIds # {} => PrintT(<<"KNOWN", id, v \cap KnownIds>>))

ConsumeLine ==
  /\ l <= N /\ l' = l + 1 /\ flushed' = FALSE
  /\ LET r == Rec[l] IN
     IF r.c = "reset"
     THEN /\ Report(cur, viol, first) /\ Bump(1)
          /\ cur' = r.id /\ lay' = r.layout /\ lc' = MP!LayoutConsts(r.layout) /\ keys' = MP!SeqSet(r.keys) /\ st' = InitState /\ phys' = {} /\ out' = {} /\ mon' = MP!InitMon
          /\ viol' = {} /\ first' = 0 /\ dead' = FALSE
     ELSE IF dead THEN UNCHANGED <<cur, lay, lc, keys, st, phys, out, mon, viol, first, dead>>     \* after a panic nothing more is judged
     ELSE IF r.panic # ""
     THEN /\ viol' = viol \cup (IF "C14" \in Props THEN {"C14-panic-in-walk"} ELSE {}) /\ dead' = TRUE
          /\ first' = (IF first = 0 /\ "C14" \in Props THEN l ELSE first)
          /\ UNCHANGED <<cur, lay, lc, keys, st, phys, out, mon>>
     ELSE IF r.e.t = "RA"
     THEN LET c == MP!CheckReleaseAll(Props, out, r.st, r.ev)
              sp == ReleaseAll(lay, st) IN
          /\ viol' = viol \cup c.v /\ first' = (IF first = 0 /\ c.v \ KnownIds # {} THEN l ELSE first)
          /\ st' = r.st /\ out' = MP!OutAfter(out, r.ev) /\ phys' = {} /\ mon' = MP!InitMon
          /\ Bump(2) /\ Bump(5)
          /\ (~(sp.st = r.st /\ sp.ev = r.ev) => /\ Bump(3) /\ (TLCGet(3) <= 3 => PrintT(<<"DRIFT", cur, l, "release_all", [impl |-> r.ev, spec |-> sp.ev]>>)))
          /\ UNCHANGED <<cur, lay, lc, keys, dead>>
     ELSE LET c == MP!CheckC(Props, lay, lc, keys, st, phys, out, mon, r.e, r.st, r.ev, r.rep)
              sp == Step(lay, st, r.e) IN
          /\ viol' = viol \cup c.v /\ first' = (IF first = 0 /\ c.v \ KnownIds # {} THEN l ELSE first)
          /\ st' = r.st /\ out' = MP!OutAfter(out, r.ev) /\ phys' = MP!PhysPost(phys, r.e)
          /\ mon' = MP!MonNextC(Props, lay, lc.hasAbs, st, phys, mon, r.e, r.st)
          /\ Bump(2) /\ (MP!FiredSeq(st, r.e, r.st) # <<>> => Bump(4))
          /\ (~(sp.st = r.st /\ sp.ev = r.ev /\ sp.rep = r.rep) =>
                /\ Bump(3) /\ (TLCGet(3) <= 3 => PrintT(<<"DRIFT", cur, l, r.e, [impl |-> [ev |-> r.ev, rep |-> r.rep], spec |-> [ev |-> sp.ev, rep |-> sp.rep]]>>)))
          /\ UNCHANGED <<cur, lay, lc, keys, dead>>

Flush == /\ l = N + 1 /\ ~flushed /\ flushed' = TRUE /\ Report(cur, viol, first)
         /\ UNCHANGED <<l, cur, lay, lc, keys, st, phys, out, mon, viol, first, dead>>
Next == ConsumeLine \/ Flush
Spec == Init /\ [][Next]_vars
Accepted == PrintT(<<"ACCEPTED", TLCGet("stats").diameter - 2, N, [i \in 1..5 |-> TLCGet(i)]>>)
=============================================================================
