-------------------------------- MODULE Loop --------------------------------
(***************************************************************************)
(* The per-device loop (LoopCore) in its environment: a keyboard and a       *)
(* tablet-mode switch with edge-triggered readiness, a poll that may time    *)
(* out, be interrupted or report devices in either order, end-of-device,     *)
(* and an injected I/O failure.  One action per driver call of the loop;     *)
(* the environment acts between calls (arrivals before a poll and during a   *)
(* drain).  Time is abstracted to "a timed poll may time out".               *)
(*                                                                         *)
(* Environment assumptions (the loop properties are relative to them):      *)
(*  - readiness is edge-triggered: an arrival raises the device's flag, a    *)
(*    poll that reports the device clears it; unread events stay queued;     *)
(*  - poll reports devices only when a flag is raised; it times out only     *)
(*    when none is (a time-out of an untimed poll is "spurious");            *)
(*  - end-of-device is the last thing a keyboard delivers.                   *)
(*                                                                         *)
(* Used three ways: TLC checks the design-level invariants below; with       *)
(* Emit = TRUE every finished behaviour prints its environment choices as a  *)
(* schedule (JSON) that the scripted driver of the recorder replays against  *)
(* the REAL loop; LoopTrace validates the recorded traces.                   *)
(***************************************************************************)
EXTENDS LoopCore, TLC, Json

CONSTANTS Layout,        \* the layout installed in the loop
          KeyEvents,     \* set of key events the keyboard may deliver
          MaxArrivals,   \* key events + end-of-device
          MaxTablet,     \* tablet switch events
          MaxTimeouts,   \* polls answered with TimedOut (timed or spurious)
          MaxIntr,       \* polls answered with Interrupted
          FaultAt,       \* 0, or the index of the driver call that fails
          Emit,          \* print schedules
          Burst          \* <<>> or a long sequence of key events that arrives at once (a stalled process, a fast typist): one burst per behaviour

VARIABLES ls,                          \* the loop (LoopCore state)
          kq, tq, kN, tN,              \* environment: unread events, readiness flags
          arrivals, tabArrivals, timeouts, intrs, calls, bursts,
          sched,                       \* history: the environment's choices, in order
          sent, reads                  \* history: payloads written, events/tablet events read

vars == <<ls, kq, tq, kN, tN, arrivals, tabArrivals, timeouts, intrs, calls, bursts, sched, sent, reads>>

End == [t |-> "E", k |-> ""]
Lbl(a, t, k, x) == [a |-> a, t |-> t, k |-> k, x |-> x]
Log(l) == sched' = Append(sched, l)
Running == ls.pc \notin {"done", "failed"}

Init == /\ ls = InitLoop /\ kq = <<>> /\ tq = <<>> /\ kN = FALSE /\ tN = FALSE
        /\ arrivals = 0 /\ tabArrivals = 0 /\ timeouts = 0 /\ intrs = 0 /\ calls = 0 /\ bursts = 0
        /\ sched = <<>> /\ sent = <<>> /\ reads = <<>>

(* ------------------------------ environment ------------------------------ *)
\* a key event (or end-of-device) arrives: before a poll, or while the loop drains a device
ArriveKbd ==
  /\ Running /\ ls.pc \in {"poll", "kbd", "tab"} /\ arrivals < MaxArrivals
  /\ ~(\E i \in 1..Len(kq): kq[i] = End)
  /\ \E e \in KeyEvents \cup {End}: kq' = Append(kq, e) /\ Log(Lbl("arrK", e.t, e.k, ""))
  /\ kN' = TRUE /\ arrivals' = arrivals + 1
  /\ UNCHANGED <<ls, tq, tN, tabArrivals, timeouts, intrs, calls, sent, reads, bursts>>

\* a whole burst of key events arrives at once
ArriveBurst ==
  /\ Running /\ ls.pc \in {"poll", "kbd", "tab"} /\ Burst # <<>> /\ bursts = 0
  /\ ~(\E i \in 1..Len(kq): kq[i] = End)
  /\ kq' = kq \o Burst /\ sched' = sched \o [i \in 1..Len(Burst) |-> Lbl("arrK", Burst[i].t, Burst[i].k, "")]
  /\ kN' = TRUE /\ bursts' = 1
  /\ UNCHANGED <<ls, tq, tN, arrivals, tabArrivals, timeouts, intrs, calls, sent, reads>>

ArriveTab ==
  /\ Running /\ ls.pc \in {"poll", "kbd", "tab"} /\ tabArrivals < MaxTablet
  /\ \E on \in BOOLEAN: tq' = Append(tq, on) /\ Log(Lbl("arrT", IF on THEN "On" ELSE "Off", "", ""))
  /\ tN' = TRUE /\ tabArrivals' = tabArrivals + 1
  /\ UNCHANGED <<ls, kq, kN, arrivals, timeouts, intrs, calls, sent, reads, bursts>>

(* ------------------------- the loop, call by call ------------------------- *)
Faulty == FaultAt # 0 /\ calls + 1 = FaultAt
Called == calls' = calls + 1

Register ==
  /\ ls.pc = "register" /\ Called
  /\ ls' = OnRegister(ls, ~Faulty)
  /\ UNCHANGED <<kq, tq, kN, tN, arrivals, tabArrivals, timeouts, intrs, sched, sent, reads, bursts>>

PollFails ==
  /\ ls.pc = "poll" /\ Faulty /\ Called /\ ls' = OnPoll(ls, [kind |-> "err"])
  /\ UNCHANGED <<kq, tq, kN, tN, arrivals, tabArrivals, timeouts, intrs, sched, sent, reads, bursts>>

\* poll reports the devices whose flag is raised, in either order, and clears the flags
PollDevice ==
  /\ ls.pc = "poll" /\ ~Faulty /\ (kN \/ tN) /\ Called
  /\ \E order \in {<<"K", "T">>, <<"T", "K">>}:
        /\ (kN /\ tN) \/ order = <<"K", "T">>
        /\ ls' = OnPoll(ls, [kind |-> "dev", devs |-> SelectSeq(order, LAMBDA d: (d = "K" /\ kN) \/ (d = "T" /\ tN))])
        /\ Log(Lbl("poll", "dev", "", IF order[1] = "K" THEN "KT" ELSE "TK"))
  /\ kN' = FALSE /\ tN' = FALSE
  /\ UNCHANGED <<kq, tq, arrivals, tabArrivals, timeouts, intrs, sent, reads, bursts>>

\* nothing is ready: a timed poll runs into its time-out, an untimed one times out spuriously
PollTimeout ==
  /\ ls.pc = "poll" /\ ~Faulty /\ ~kN /\ ~tN /\ timeouts < MaxTimeouts /\ Called
  /\ ls' = OnPoll(ls, [kind |-> "timeout"])
  /\ timeouts' = timeouts + 1 /\ Log(Lbl("poll", "timeout", "", IF Call(ls).timed THEN "timed" ELSE "spurious"))
  /\ UNCHANGED <<kq, tq, kN, tN, arrivals, tabArrivals, intrs, sent, reads, bursts>>

\* a signal interrupts the poll; raised flags stay raised
PollInterrupted ==
  /\ ls.pc = "poll" /\ ~Faulty /\ intrs < MaxIntr /\ ls.restarts = 0 /\ Called
  /\ ls' = OnPoll(ls, [kind |-> "intr"])
  /\ intrs' = intrs + 1 /\ Log(Lbl("poll", "intr", "", ""))
  /\ UNCHANGED <<kq, tq, kN, tN, arrivals, tabArrivals, timeouts, sent, reads, bursts>>

ReadKbd ==
  /\ ls.pc = "kbd" /\ Called
  /\ Log(Lbl("readK", "", "", ""))
  /\ IF Faulty THEN ls' = OnKbd(Layout, ls, [kind |-> "err"]) /\ UNCHANGED <<kq, reads>>
     ELSE IF kq = <<>> THEN ls' = OnKbd(Layout, ls, [kind |-> "busy"]) /\ UNCHANGED <<kq, reads>>
     ELSE IF Head(kq) = End THEN ls' = OnKbd(Layout, ls, [kind |-> "end"]) /\ UNCHANGED <<kq, reads>>
     ELSE /\ ls' = OnKbd(Layout, ls, [kind |-> "one", e |-> Head(kq)])
          /\ kq' = Tail(kq) /\ reads' = Append(reads, [dev |-> "K", e |-> Head(kq), tab |-> ls.inTablet])
  /\ UNCHANGED <<tq, kN, tN, arrivals, tabArrivals, timeouts, intrs, sent, bursts>>

ReadTab ==
  /\ ls.pc = "tab" /\ Called
  /\ Log(Lbl("readT", "", "", ""))
  /\ IF Faulty THEN ls' = OnTab(Layout, ls, [kind |-> "err"]) /\ UNCHANGED <<tq, reads>>
     ELSE IF tq = <<>> THEN ls' = OnTab(Layout, ls, [kind |-> "busy"]) /\ UNCHANGED <<tq, reads>>
     ELSE /\ ls' = OnTab(Layout, ls, [kind |-> "one", on |-> Head(tq)])
          /\ tq' = Tail(tq) /\ reads' = Append(reads, [dev |-> "T", e |-> [t |-> IF Head(tq) THEN "On" ELSE "Off", k |-> ""], tab |-> ls.inTablet])
  /\ UNCHANGED <<kq, kN, tN, arrivals, tabArrivals, timeouts, intrs, sent, bursts>>

Send ==
  /\ ls.pc = "send" /\ Called
  /\ ls' = OnSend(ls, ~Faulty)
  /\ sent' = IF Faulty THEN sent ELSE Append(sent, [evs |-> ls.out, chord |-> ls.after = "poll", tab |-> ls.inTablet])
  /\ UNCHANGED <<kq, tq, kN, tN, arrivals, tabArrivals, timeouts, intrs, sched, reads, bursts>>

Next == ArriveKbd \/ ArriveBurst \/ ArriveTab \/ Register \/ PollFails \/ PollDevice \/ PollTimeout \/ PollInterrupted \/ ReadKbd \/ ReadTab \/ Send
Spec == Init /\ [][Next]_vars

(* ------------------------- design-level properties ------------------------ *)
\* C10: the loop never goes back to waiting while events it has been notified about are unread
NoLostWakeup == ls.pc = "poll" => ((kq # <<>> => kN) /\ (tq # <<>> => tN))

\* C10: what was written (timer chords aside) is exactly what a mapper answers to the events read
\* outside tablet mode and release_all at every tablet event, each non-empty answer once, in order.
\* The reference is folded from the reads alone, independently of the loop's own mapper variable.
RECURSIVE RefOut(_, _)
RefOut(st, rs) ==
  IF rs = <<>> THEN <<>>
  ELSE LET r == Head(rs) IN
       IF r.dev = "T" THEN LET x == ReleaseAll(Layout, st) IN (IF x.ev = <<>> THEN <<>> ELSE <<x.ev>>) \o RefOut(x.st, Tail(rs))
       ELSE IF r.tab THEN RefOut(st, Tail(rs))
       ELSE LET x == Step(Layout, st, r.e) IN (IF x.ev = <<>> THEN <<>> ELSE <<x.ev>>) \o RefOut(x.st, Tail(rs))
NonChord == SelectSeq(sent, LAMBDA s: ~s.chord)
Payloads(ss) == [i \in 1..Len(ss) |-> ss[i].evs]
IsPrefixOf(a, b) == Len(a) <= Len(b) /\ SubSeq(b, 1, Len(a)) = a
SendsAreMapperOutputs ==
  LET ref == RefOut(InitState, reads) IN
  IF ls.pc = "send" \/ ls.pc = "failed" THEN IsPrefixOf(Payloads(NonChord), ref) /\ Len(ref) - Len(NonChord) <= 1
  ELSE Payloads(NonChord) = ref

\* C12: nothing is written in tablet mode except the release at the switch itself; C11: no chord in tablet mode
QuietInTabletMode == \A i \in 1..Len(sent): sent[i].tab => ~sent[i].chord
\* C12: right after a tablet event has been handled nothing is held on the virtual keyboard
RECURSIVE FoldHeld(_, _)
FoldHeld(h, ss) == IF ss = <<>> THEN h ELSE FoldHeld(NoteSent(h, Head(ss).evs), Tail(ss))
HeldMatches == ls.pc # "send" => ToSet(FoldHeld(<<>>, sent)) = ToSet(ls.held)
ReleasedInTablet == (ls.inTablet /\ ls.pc # "send") => ls.held = <<>>
\* C11: every chord leaves the held set as it was
ChordsAreTransient == \A i \in 1..Len(sent): sent[i].chord => FoldHeld(<<>>, SubSeq(sent, 1, i)) = FoldHeld(<<>>, SubSeq(sent, 1, i - 1))
\* C20: after the failing call the loop has stopped and nothing more is written
StopsOnFailure == (FaultAt # 0 /\ calls >= FaultAt) => ls.pc = "failed"

(* ------------------------------ schedules out ----------------------------- *)
\* a finished behaviour prints the environment's choices once (sched is part of the state, so
\* every distinct schedule is a distinct final state)
Finished == ls.pc \in {"done", "failed"}
EmitSchedule == (Emit /\ Finished) => PrintT(<<"SCHEDULE", ToJson(sched)>>)
=============================================================================
