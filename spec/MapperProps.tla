---------------------------- MODULE MapperProps ----------------------------
(***************************************************************************)
(* The mapper properties C01-C05, C07-C09, C19 (and the panic half of C14) *)
(* as predicates over ONE transition of a mapper, written over observables: *)
(*   physPre  - fold of all input events so far (what is physically held)  *)
(*   outPre   - fold of all output events so far (held on the virtual kbd) *)
(*   e        - the input event of this step                               *)
(*   ev, rep  - the output events and the repeat instruction of this step  *)
(*   layout   - the layout                                                 *)
(*   mon      - small history (monitor) variables, advanced by MonNext     *)
(* plus, where the property anchors define "a mapping in effect" that way, *)
(* the mapper's own list of active mappings before/after the step (pre,    *)
(* post are state records as in Mapper.tla).                               *)
(*                                                                         *)
(* Check(...) returns [v |-> set of violated clause ids,                   *)
(*                     a |-> set of antecedent tags that were exercised]   *)
(* Clause ids starting with "KNOWN-" are violations that match the         *)
(* signature of a finding listed in /verif/KNOWN_FINDINGS.json; the model   *)
(* that uses this module decides (from that file) whether they are         *)
(* suppressed.  The same module judges the specification (MapperSpecMC)    *)
(* and the tabulated implementation (MapperImplMC).                        *)
(***************************************************************************)
EXTENDS Naturals, Sequences, FiniteSets, SequencesExt

StdMods == {"LEFTSHIFT","RIGHTSHIFT","LEFTMETA","RIGHTMETA","LEFTCTRL","RIGHTCTRL","LEFTALT","RIGHTALT"}
IsMod(k) == k \in StdMods
InSeq(s, x) == \E i \in 1..Len(s): s[i] = x
SeqSet(s) == {s[i]: i \in 1..Len(s)}
LastOf(s) == s[Len(s)]
Pe(k) == [t |-> "P", k |-> k]
Re(k) == [t |-> "R", k |-> k]

RECURSIVE FoldEv(_, _)
FoldEv(acc, evs) ==
  IF evs = <<>> THEN acc
  ELSE LET e == Head(evs)
           ok == IF e.t = "P" THEN e.k \notin acc.out ELSE e.k \in acc.out
           o2 == IF e.t = "P" THEN acc.out \cup {e.k} ELSE acc.out \ {e.k}
       IN FoldEv([out |-> o2, bad |-> acc.bad \/ ~ok], Tail(evs))
OutAfter(out0, evs) == FoldEv([out |-> out0, bad |-> FALSE], evs).out

PressedIn(evs) == {evs[i].k: i \in {j \in 1..Len(evs): evs[j].t = "P"}}
ReleasedIn(evs) == {evs[i].k: i \in {j \in 1..Len(evs): evs[j].t = "R"}}
NumPresses(evs) == Cardinality({j \in 1..Len(evs): evs[j].t = "P"})
OnKey(evs, f) == SelectSeq(evs, LAMBDA x: x.k = f)

LayoutKeys(layout) ==
  UNION {SeqSet(layout[i].from) \cup SeqSet(layout[i].to) \cup SeqSet(layout[i].absorbing)
           \cup (IF layout[i].repeat.kind = "Special" THEN SeqSet(layout[i].repeat.keys) ELSE {}): i \in 1..Len(layout)}
HasAbs(layout) == \E i \in 1..Len(layout): layout[i].absorbing # <<>>
\* keys with a single-key mapping that occur in no mapping's output (C02b)
OnlySingleNoOut(layout) == {layout[i].from[1]: i \in {j \in 1..Len(layout): Len(layout[j].from) = 1}}
                            \ UNION {SeqSet(layout[i].to): i \in 1..Len(layout)}

\* what the clauses need to know about a layout and that does not depend on the step: computed once per layout by the
\* models (a constant-level table), not once per transition
LayoutConsts(layout) ==
  LET L == 1..Len(layout) IN
  [keys |-> LayoutKeys(layout), hasAbs |-> HasAbs(layout), osno |-> OnlySingleNoOut(layout),
   \* index of a mapping record (the first, if it is listed twice) and, per index, the output keys no other mapping outputs
   idx |-> [m \in {layout[j]: j \in L} |-> CHOOSE j \in L: layout[j] = m /\ \A j2 \in L: layout[j2] = m => j <= j2],
   own |-> [i \in L |-> {x \in SeqSet(layout[i].to): ~\E j \in L: j # i /\ InSeq(layout[j].to, x)}]]

InitMon == [abs |-> {}, reabs |-> {}, refire |-> <<>>, norep |-> FALSE, rel |-> {}, again |-> {}]

(* ---- derived observations of one transition ---- *)
PhysPost(physPre, e) == IF e.t = "P" THEN physPre \cup {e.k} ELSE physPre \ {e.k}
\* the mapper treats the event as a duplicate (C09 "events it ignores")
Ignored(pre, e) == IF e.t = "P" THEN InSeq(pre.input, e.k) ELSE ~InSeq(pre.input, e.k)
\* the mapping that took effect in this step: in effect after, not before, final trigger key = pressed key
FiredSeq(pre, e, post) ==
  IF e.t = "P" /\ ~Ignored(pre, e)
  THEN SelectSeq(post.active, LAMBDA m: LastOf(m.from) = e.k /\ ~InSeq(pre.active, m))
  ELSE <<>>

\* the last-listed layout mapping with the same trigger and output as m (m itself when the layout has none)
InLayout(layout, m) == LET idx == {i \in 1..Len(layout): layout[i].from = m.from /\ layout[i].to = m.to} IN
                       IF idx = {} THEN m ELSE layout[CHOOSE i \in idx: \A j \in idx: j <= i]

Tag(c, t) == IF c THEN {t} ELSE {}

(* ---- the clauses ---- *)
CheckC(props, layout, lc, keys, pre, physPre, outPre, mon, e, post, ev, rep) ==
  LET physPost == PhysPost(physPre, e)
      acted == physPost # physPre
      ignored == Ignored(pre, e)
      fo == FoldEv([out |-> outPre, bad |-> FALSE], ev)
      outPost == fo.out
      fs == FiredSeq(pre, e, post)
      hasFired == fs # <<>>
      \* fs[1] is the mapper's own copy of the mapping; what C07/C09 are about is the mode the LAYOUT declares for it
      fired == InLayout(layout, fs[1])
      firedNorep == hasFired /\ fired.repeat.kind # "Normal"
      hasAbs == lc.hasAbs
      foreign == keys \ lc.keys
      L == 1..Len(layout)

      (* C19: no redundant events; bookkeeping = device *)
      c19 == Tag(fo.bad, "C19")
             \cup Tag(outPost # SeqSet(post.pass) \cup SeqSet(post.mapped), "C19-book")
      a19 == Tag(ev # <<>>, "C19-events")

      (* C01 *)
      c01 == Tag(physPost = {} /\ outPost # {}, "C01")
      a01 == Tag(physPost = {} /\ physPre # {}, "C01-rest")

      (* C02 *)
      c02 == Tag(\E k \in outPost: ~(k \in physPost \/ \E i \in L: InSeq(layout[i].to, k) /\ SeqSet(layout[i].from) \subseteq physPost), "C02a")
             \cup Tag(outPost \cap lc.osno # {}, "C02b")
             \cup Tag(e.t = "R" /\ PressedIn(ev) # {}, "C02c")
             \cup Tag(\E i \in 1..Len(post.active): \E f \in SeqSet(post.active[i].from):
                         f \in outPost /\ ~\E j \in 1..Len(post.active): InSeq(post.active[j].to, f), "C02d")
      a02 == Tag(outPost # {}, "C02-held") \cup Tag(post.active # <<>>, "C02-ineffect")
             \cup Tag(e.t = "R" /\ ev # <<>>, "C02-release")

      (* C03 / C04: non-absorbing layouts, presses *)
      candIdx == {i \in L: LastOf(layout[i].from) = e.k /\ SeqSet(layout[i].from) \ {e.k} \subseteq physPre}
      hasCand == candIdx # {}
      cand == layout[CHOOSE i \in candIdx: \A j \in candIdx: j <= i]
      mentioned == \E i \in 1..Len(pre.active): InSeq(pre.active[i].from, e.k) \/ InSeq(pre.active[i].to, e.k)
      c03 == IF hasAbs \/ e.t # "P" THEN {}
             ELSE IF ~acted THEN Tag(ev # <<>>, "C03-dup")
             ELSE IF hasCand
                  THEN Tag(~(hasFired /\ fired = cand), "C03-fired")
                       \cup Tag(~(PressedIn(ev) \subseteq SeqSet(cand.to)), "C03a")
                       \cup Tag(\E x \in SeqSet(cand.to): ~IsMod(x) /\ x \notin PressedIn(ev), "C03b")
                       \cup Tag(\E x \in SeqSet(cand.to): IsMod(x) /\ x \notin PressedIn(ev) /\ x \notin outPre, "C03b-mod")
                       \cup Tag(cand.repeat.kind = "Normal" /\ ~(SeqSet(cand.to) \subseteq outPost), "C03c")
                  ELSE Tag(hasFired, "C03-spurious")
                       \cup (IF mentioned THEN Tag(ev # <<>>, "C03d")
                             ELSE Tag(ev = <<>> \/ LastOf(ev) # Pe(e.k) \/ NumPresses(ev) # 1, "C03e"))
      a03 == IF hasAbs \/ e.t # "P" THEN {}
             ELSE IF ~acted THEN {"C03-dup-press"}
             ELSE IF hasCand THEN {"C03-cand"} \cup Tag(Cardinality(candIdx) > 1, "C03-cand-several")
             ELSE IF mentioned THEN {"C03-mentioned"} ELSE {"C03-passthrough"}

      c04 == IF hasAbs \/ e.t # "P" \/ ~acted \/ ~hasCand \/ cand.to = <<>> THEN {}
             ELSE LET last == LastOf(cand.to)
                      pos == {i \in 1..Len(ev): ev[i] = Pe(last)}
                  IN IF IsMod(last) \/ pos = {} THEN {}
                     ELSE LET p == CHOOSE i \in pos: \A j \in pos: j <= i
                              d == OutAfter(outPre, SubSeq(ev, 1, p - 1))
                          IN Tag(\E x \in SeqSet(cand.to): IsMod(x) /\ x \notin d, "C04a")
                             \cup Tag(\E x \in d: IsMod(x) /\ x \notin SeqSet(cand.to)
                                        /\ ~(x \in physPost /\ x \notin SeqSet(cand.from))
                                        \* (a modifier-remapping that is still in effect may keep its modifier down: in effect = recorded by the
                                        \* mapper AND its trigger keys still physically held)
                                        /\ ~(\E j \in 1..Len(post.active): post.active[j] # cand /\ post.active[j].to # <<>>
                                               /\ IsMod(LastOf(post.active[j].to)) /\ InSeq(post.active[j].to, x)
                                               /\ SeqSet(post.active[j].from) \subseteq physPost), "C04b")
      a04 == IF hasAbs \/ e.t # "P" \/ ~acted \/ ~hasCand \/ cand.to = <<>> THEN {}
             ELSE IF IsMod(LastOf(cand.to)) THEN {}
             ELSE {"C04-keypress"} \cup Tag(\E x \in outPre: IsMod(x), "C04-mods-down-before")

      (* C05 *)
      c05f == UNION {LET onf == OnKey(ev, f) IN
                     IF e.k = f /\ e.t = "P" /\ acted
                     THEN Tag(onf # <<Pe(f)>> \/ f \notin outPost, "C05-foreign-press")
                     ELSE IF e.k = f /\ e.t = "R" /\ acted
                     THEN (IF f \in outPre THEN Tag(onf # <<Re(f)>>, "C05-foreign-release")
                           ELSE Tag(onf # <<>>, "C05-foreign-release"))
                     ELSE Tag(onf # <<>> /\ ~(~IsMod(f) /\ firedNorep /\ onf = <<Re(f)>>), "C05-foreign-other")
                     : f \in foreign}
      c05e == Tag(layout = <<>> /\ ev # (IF acted THEN <<e>> ELSE <<>>), "C05-empty")
      c05r == IF e.t = "R" /\ acted
              THEN Tag(\E x \in ReleasedIn(ev): ~(x = e.k \/ \E i \in 1..Len(pre.active): InSeq(pre.active[i].from, e.k) /\ InSeq(pre.active[i].to, x)), "C05-rel-only")
                   \cup Tag(\E x \in ReleasedIn(ev): \E i \in 1..Len(post.active): InSeq(post.active[i].to, x), "C05-rel-still-used")
              ELSE {}
      c05i == IF hasAbs THEN {}
              ELSE UNION {LET m == pre.active[i]
                              known == m \in DOMAIN lc.idx          \* (a mapping in effect that the layout does not list: AUX reports it)
                              mi == IF known THEN lc.idx[m] ELSE 0
                              own == IF known THEN lc.own[mi] ELSE {}
                          IN IF ~InSeq(post.active, m) \/ m.to = <<>> THEN {}
                             ELSE Tag(IsMod(LastOf(m.to)) /\ \E x \in own: IsMod(x) /\ x \in ReleasedIn(ev), "C05-ineffect-mod")
                                  \cup Tag(m.repeat.kind = "Normal" /\ ~(\E y \in SeqSet(m.to): IsMod(y)) /\ ~firedNorep
                                           /\ \E x \in own: x \in ReleasedIn(ev), "C05-ineffect-plain")
                          : i \in 1..Len(pre.active)}
      a05 == Tag(e.k \in foreign /\ acted, "C05-foreign-event") \cup Tag(foreign \cap outPre # {} /\ e.k \notin foreign, "C05-foreign-held")
             \cup Tag(layout = <<>> /\ acted, "C05-empty-layout")
             \cup Tag(e.t = "R" /\ acted /\ ReleasedIn(ev) # {}, "C05-release")
             \cup Tag(~hasAbs /\ \E i \in 1..Len(pre.active): InSeq(post.active, pre.active[i]) /\ pre.active[i].to # <<>>, "C05-stays-ineffect")

      (* C07 *)
      norepPost == IF e.t = "P" /\ ~ignored THEN firedNorep ELSE mon.norep
      c07 == (IF firedNorep
              THEN Tag(\E x \in outPost: ~IsMod(x), "C07-held")
                   \cup Tag(\E x \in SeqSet(fired.to): x \notin PressedIn(ev) /\ ~(IsMod(x) /\ x \in outPre), "C07-notpressed")
              ELSE {})
             \cup Tag(norepPost /\ e.t = "R" /\ \E x \in outPost: ~IsMod(x), "C07-window")
      a07 == Tag(firedNorep, "C07-fired") \cup Tag(norepPost /\ e.t = "R", "C07-window-release")

      (* C08 *)
      abs1 == IF e.t = "P" /\ ignored THEN mon.abs ELSE {p \in mon.abs: p[1] # e.k}
      live == {p \in abs1: p[1] \in physPost /\ p[2] # e.k}
      DownAtNonModPress(M) ==
         \E i \in 1..Len(ev): ev[i].t = "P" /\ ~IsMod(ev[i].k) /\ M \in OutAfter(outPre, SubSeq(ev, 1, i - 1))
      outputsM(M) == \E j \in 1..Len(post.active): InSeq(post.active[j].to, M)
      c08 == IF ~hasAbs \/ e.t # "P" THEN {}
             ELSE UNION {Tag(hasFired /\ InSeq(fired.from, p[1]), IF p[1] \in mon.reabs THEN "KNOWN-D3-C08a" ELSE "C08a")
                         \cup Tag(DownAtNonModPress(p[1]) /\ ~outputsM(p[1]), IF p[1] \in mon.reabs THEN "KNOWN-D3-C08b" ELSE "C08b")
                         : p \in live}
                  \cup Tag(mon.refire # <<>> /\ mon.refire[1].t = e.k /\ ~ignored /\ physPost = mon.refire[1].ph
                           /\ ~(hasFired /\ fired = mon.refire[1].m), IF mon.reabs # {} THEN "KNOWN-D3-C08c" ELSE "C08c")
      \* last sentence: M was absorbed, has been released and pressed again (mon.again), nothing is absorbed at the
      \* moment: a press that completes a mapping requiring M fires it, by the ordinary rule (last-listed candidate)
      again1 == mon.again \cup (IF e.t = "P" /\ ~ignored /\ e.k \in mon.rel THEN {e.k} ELSE {})
      countsAgain == hasAbs /\ e.t = "P" /\ ~ignored /\ acted /\ {p \in abs1: p[1] \in physPost} = {}
                     /\ hasCand /\ SeqSet(cand.from) \cap again1 # {}
      c08d == Tag(countsAgain /\ ~(hasFired /\ fired = cand), "C08d")
      a08 == IF ~hasAbs \/ e.t # "P" THEN {}
             ELSE Tag(countsAgain, "C08-counts-again") \cup Tag(live # {}, "C08-press-while-absorbed")
                  \cup Tag(mon.refire # <<>> /\ mon.refire[1].t = e.k /\ ~ignored /\ physPost = mon.refire[1].ph, "C08-refire")
                  \cup Tag(hasFired /\ fired.absorbing # <<>>, "C08-absorbing-fired")

      (* C09 *)
      c09 == IF hasFired /\ fired.repeat.kind = "Special"
             THEN Tag(rep # [kind |-> "Repeating", keys |-> fired.repeat.keys, delay |-> fired.repeat.delay, interval |-> fired.repeat.interval], "C09-special")
             ELSE IF rep.kind = "Repeating" THEN {"C09-spurious"}
             ELSE IF ignored THEN Tag(rep.kind # "NoChange", "C09-ignored")
             ELSE Tag(rep.kind # "Disabled", "C09-acted")
      a09 == Tag(hasFired /\ fired.repeat.kind = "Special", "C09-special-fired") \cup Tag(ignored, "C09-ignored-event")
             \cup Tag(~ignored /\ ~(hasFired /\ fired.repeat.kind = "Special"), "C09-cancelling-event")
  IN [v |-> (IF "C19" \in props THEN c19 ELSE {})
            \cup (IF "C01" \in props THEN c01 ELSE {})
            \cup (IF "C02" \in props THEN c02 ELSE {})
            \cup (IF "C03" \in props THEN c03 ELSE {})
            \cup (IF "C04" \in props THEN c04 ELSE {})
            \cup (IF "C05" \in props THEN c05f \cup c05e \cup c05r \cup c05i ELSE {})
            \cup (IF "C07" \in props THEN c07 ELSE {})
            \cup (IF "C08" \in props THEN c08 \cup c08d ELSE {})
            \cup (IF "C09" \in props THEN c09 ELSE {}),
      a |-> (IF "C19" \in props THEN a19 ELSE {})
            \cup (IF "C01" \in props THEN a01 ELSE {})
            \cup (IF "C02" \in props THEN a02 ELSE {})
            \cup (IF "C03" \in props THEN a03 ELSE {})
            \cup (IF "C04" \in props THEN a04 ELSE {})
            \cup (IF "C05" \in props THEN a05 ELSE {})
            \cup (IF "C07" \in props THEN a07 ELSE {})
            \cup (IF "C08" \in props THEN a08 ELSE {})
            \cup (IF "C09" \in props THEN a09 ELSE {})]

Check(props, layout, keys, pre, physPre, outPre, mon, e, post, ev, rep) ==
  CheckC(props, layout, LayoutConsts(layout), keys, pre, physPre, outPre, mon, e, post, ev, rep)

(* release_all as an operation of its own: C19 for the batch, nothing left held (C06/C01) *)
CheckReleaseAll(props, outPre, post, ev) ==
  LET fo == FoldEv([out |-> outPre, bad |-> FALSE], ev) IN
  [v |-> (IF "C19" \in props THEN Tag(fo.bad, "C19-releaseall") \cup Tag(fo.out # SeqSet(post.pass) \cup SeqSet(post.mapped), "C19-book-releaseall") ELSE {})
         \cup (IF "C06" \in props THEN Tag(fo.out # {}, "C06-held-after-releaseall") ELSE {})
         \cup (IF "C02" \in props THEN Tag(PressedIn(ev) # {}, "C02c-releaseall") ELSE {}),
   a |-> Tag(ev # <<>>, "RA-events")]

(* Auxiliary invariants of the mapper's internal state.  They are not listed properties: they   *)
(* document the design of the bookkeeping (what every step may assume about the seven fields)  *)
(* and are reported as AUX lines, never as violations.                                         *)
NoDupS(s) == \A i, j \in 1..Len(s): s[i] = s[j] => i = j
Aux(layout, st) ==
  Tag(~NoDupS(st.input), "AUX-input-has-duplicates")
  \cup Tag(~NoDupS(st.pass), "AUX-pass-has-duplicates")
  \cup Tag(~NoDupS(st.mapped), "AUX-mapped-has-duplicates")
  \cup Tag(~NoDupS(st.absorbed), "AUX-absorbed-has-duplicates")
  \cup Tag(SeqSet(st.pass) \cap SeqSet(st.mapped) # {}, "AUX-key-both-passthrough-and-mapped")
  \cup Tag(\E i \in 1..Len(st.active): ~(SeqSet(st.active[i].from) \subseteq SeqSet(st.input)), "AUX-active-mapping-with-unheld-trigger")
  \cup Tag(~NoDupS(st.active), "AUX-mapping-active-twice")
  \cup Tag(\E i \in 1..Len(st.active): ~InSeq(layout, st.active[i]), "AUX-active-mapping-not-in-layout")
  \cup Tag(~(SeqSet(st.mapped) \subseteq UNION {SeqSet(st.active[i].to): i \in 1..Len(st.active)}), "AUX-mapped-key-without-active-mapping")
  \cup Tag(~(SeqSet(st.pass) \subseteq SeqSet(st.input)), "AUX-passthrough-key-not-held")
  \cup Tag(~(SeqSet(st.absorbed) \subseteq UNION {SeqSet(layout[i].absorbing): i \in 1..Len(layout)}), "AUX-absorbed-key-not-in-any-absorbing-list")
  \cup Tag(st.abstrig = <<>> /\ st.absorbed # <<>>, "AUX-absorbed-keys-without-trigger")

MonNextC(props, layout, hasAbsL, pre, physPre, mon, e, post) ==
  LET physPost == PhysPost(physPre, e)
      ignored == Ignored(pre, e)
      fs == FiredSeq(pre, e, post)
      hasFired == fs # <<>>
      \* fs[1] is the mapper's own copy of the mapping; what C07/C09 are about is the mode the LAYOUT declares for it
      fired == InLayout(layout, fs[1])
      firedNorep == hasFired /\ fired.repeat.kind # "Normal"
      norep2 == IF "C07" \in props THEN (IF e.t = "P" /\ ~ignored THEN firedNorep ELSE mon.norep) ELSE FALSE
      abs1 == IF e.t = "P" /\ ignored THEN mon.abs ELSE {p \in mon.abs: p[1] # e.k}
      absorbs == hasFired /\ fired.absorbing # <<>>
      older == {p[1]: p \in {q \in abs1: q[2] # e.k}}
      abs2 == IF e.t = "P" /\ absorbs
              THEN {p \in abs1: p[1] \notin SeqSet(fired.absorbing)} \cup {<<a, e.k>>: a \in SeqSet(fired.absorbing)}
              ELSE abs1
      reabs2 == IF e.t = "P" /\ absorbs THEN (mon.reabs \cup older) \ SeqSet(fired.absorbing) ELSE mon.reabs
      refire2 == IF e.t # "P" THEN mon.refire
                 ELSE IF absorbs THEN <<[t |-> e.k, m |-> fired, ph |-> physPost]>>
                 ELSE IF mon.refire # <<>> /\ mon.refire[1].t # e.k THEN <<>> ELSE mon.refire
      abs3 == {p \in abs2: p[1] \in physPost}
      \* rel: absorbed keys that have been released since; again: ... and pressed again, not absorbed since
      nowAbs == IF e.t = "P" /\ absorbs THEN SeqSet(fired.absorbing) ELSE {}
      rel2 == IF e.t = "R" /\ e.k \in physPre /\ (\E p \in mon.abs: p[1] = e.k) THEN mon.rel \cup {e.k}
              ELSE IF e.t = "P" /\ ~ignored THEN mon.rel \ {e.k} ELSE mon.rel
      again2 == IF e.t = "R" THEN mon.again \ {e.k}
                ELSE ((mon.again \cup (IF ~ignored /\ e.k \in mon.rel THEN {e.k} ELSE {})) \ nowAbs) \cap physPost
  IN IF "C08" \in props /\ hasAbsL
     THEN [abs |-> abs3, reabs |-> reabs2 \cap {p[1]: p \in abs3}, refire |-> refire2, norep |-> norep2, rel |-> rel2 \ nowAbs, again |-> again2]
     ELSE [abs |-> {}, reabs |-> {}, refire |-> <<>>, norep |-> norep2, rel |-> {}, again |-> {}]
MonNext(props, layout, pre, physPre, mon, e, post) == MonNextC(props, layout, HasAbs(layout), pre, physPre, mon, e, post)
=============================================================================
