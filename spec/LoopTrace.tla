------------------------------ MODULE LoopTrace ------------------------------
(***************************************************************************)
(* Trace validation of the REAL per-device loop (properties C10, C11, C12,  *)
(* C20).  TRACE = ndjson written by `tmv loop`: one line per driver call of  *)
(* the real do_remapping_loop_one_device under the scripted driver, with     *)
(* arguments, result, the arrivals the environment delivered at that call,   *)
(* monotonic-clock stamps (us) at entry and exit, and - next to each read -   *)
(* what the REAL mapper answers to the event read.  Many traces per file,     *)
(* each introduced by a `reset` line.                                        *)
(*                                                                         *)
(* Every line carries its arguments and results, so the trace spec is        *)
(* deterministic: one total action ConsumeLine.  Three layers:                   *)
(*  1. the environment of Loop.tla is replayed from the logged arrivals       *)
(*     (queues, edge-triggered flags); a line it cannot explain is ENV-...,   *)
(*     a defect of the recorder, not of the loop;                             *)
(*  2. the property monitors (clause ids C10-.., C11-.., C12-.., C20-..) are  *)
(*     evaluated on the logged calls only;                                    *)
(*  3. the detailed loop (LoopCore) is stepped along as a conformance layer;  *)
(*     a call it does not predict is DRIFT (the model needs updating), not a  *)
(*     violation.                                                            *)
(* Violations are collected per trace and printed when the trace ends.        *)
(***************************************************************************)
EXTENDS LoopCore, TLC, TLCExt, Json, IOUtils
CONSTANT KnownIds

Rec == ndJsonDeserialize(IOEnv.TRACE)
N == Len(Rec)

VARIABLES l, cur, opt, kq, tq, kN, tN, ended, failed, errmsg, inTab, afterTab, tabCleared, held, phys, mphys, aphys, must, pend, onJust, prevOut, prevTimeout, viol, cs, lay, flushed
vars == <<l, cur, opt, kq, tq, kN, tN, ended, failed, errmsg, inTab, afterTab, tabCleared, held, phys, mphys, aphys, must, pend, onJust, prevOut, prevTimeout, viol, cs, lay, flushed>>

EndEv == [t |-> "E", k |-> ""]
NoPend == [on |-> FALSE, keys |-> <<>>, interval |-> 0, delay |-> 0, lo |-> 0, hi |-> 0, open |-> FALSE, sent |-> FALSE]
\* q: writes owed for key events that were read EARLIER than the one `evs` belongs to and have not been seen yet. A reader may fetch several events with
\* one system call and hand them to the loop one by one (the reads of the scripted device then get ahead of the writes): "each non-empty step written once
\* and in order" is a statement about the writes, so they are matched first in, first out, and what is still owed is asked for when the loop goes back to
\* waiting, reads the tablet switch or returns - not at the next read.
NoMust == [on |-> FALSE, kind |-> "", evs |-> <<>>, on2 |-> FALSE, evs2 |-> <<>>, q |-> <<>>]
Lost == [pc |-> "lost"]
\* how the trace was recorded (reset line). slack: by how many us a requested time-out may fall short of the schedule
\* (the system-call level sees mio's whole milliseconds: the real driver truncates); errtext: whether the error text
\* the loop returns can be compared with the injected one (at the system-call level the real driver words it itself)
NoOpt == [slack |-> 0, errtext |-> TRUE]

\* registers: 1 traces, 2 drifts, 3 chords judged, 4 step sends judged, 5 release-all sends judged, 6 timed polls judged,
\* 7 failing calls judged, 8 polls made with unread events queued, 9 key events read in tablet mode, 10 tablet-on with keys held
NReg == 10
Bump(i) == TLCSet(i, TLCGet(i) + 1)
BumpIf(c, i) == c => Bump(i)

Init == /\ l = 1 /\ cur = "" /\ opt = NoOpt /\ kq = <<>> /\ tq = <<>> /\ kN = FALSE /\ tN = FALSE /\ ended = FALSE /\ failed = FALSE /\ errmsg = ""
        /\ inTab = FALSE /\ afterTab = FALSE /\ tabCleared = FALSE /\ held = {} /\ phys = {} /\ mphys = {} /\ aphys = {} /\ must = NoMust /\ pend = NoPend /\ onJust = FALSE /\ prevOut = 0 /\ prevTimeout = FALSE
        /\ viol = {} /\ cs = InitLoop /\ lay = <<>> /\ flushed = FALSE
        /\ \A i \in 1..NReg: TLCSet(i, 0)

RECURSIVE HeldAfter(_, _)
HeldAfter(h, evs) == IF evs = <<>> THEN h
                   ELSE HeldAfter(IF Head(evs).t = "P" THEN h \cup {Head(evs).k} ELSE h \ {Head(evs).k}, Tail(evs))
InSeq(s, x) == \E i \in 1..Len(s): s[i] = x
\* some event of the batch presses a key that is down at that instant, or releases one that is up
RECURSIVE Redundant(_, _)
Redundant(h, evs) == IF evs = <<>> THEN FALSE
                     ELSE LET e == Head(evs) IN
                          IF e.t = "P" THEN e.k \in h \/ Redundant(h \cup {e.k}, Tail(evs))
                          ELSE IF e.t = "R" THEN e.k \notin h \/ Redundant(h \ {e.k}, Tail(evs))
                          ELSE Redundant(h, Tail(evs))
\* C11: the chord the property asks for: keys not already held, pressed in listed order, released in reverse
WantedChord(keys, h) == LET ks == SelectSeq(keys, LAMBDA k: k \notin h) IN Ps(ks) \o Rs(Reverse(ks))
TabQ(arr) == [i \in 1..Len(arr) |-> arr[i] = "On"]

Tag(c, t) == IF c THEN {t} ELSE {}
\* evaluated at every call that is not a send: an owed send did not happen; keys survived the tablet switch
\* (after a failed call nothing is owed any more: C20 obliges the loop to stop without a further write)
Owed0(stepToo) == IF failed THEN {} ELSE
        Tag(must.on /\ (stepToo \/ must.kind # "step"), IF must.kind = "chord" THEN "C11-chord-missing" ELSE "C10-send-missing-" \o must.kind)
        \cup Tag(stepToo /\ must.q # <<>>, "C10-send-missing-step")
        \* after a tablet-mode change the loop is to behave as a newly started one: a new loop would write exactly the wanted chord
        \cup Tag(must.on /\ must.kind = "chord" /\ afterTab, "C12-chord-not-as-fresh-after-tablet-mode")
        \cup Tag(~must.on /\ must.on2, "C12-not-fresh-after-tablet-mode")
        \cup Tag(onJust /\ held # {}, "C12-not-released-at-tablet-on")
Owed == Owed0(TRUE)
\* at a read of the keyboard the write owed for an earlier key event may still come (see NoMust)
OwedAtRead == Owed0(FALSE)
\* the writes still owed for key events, oldest first, when another key event is read
QAfterRead == IF must.on /\ must.kind = "step" THEN Append(must.q, [evs |-> must.evs, on2 |-> must.on2, evs2 |-> must.evs2]) ELSE must.q
AfterFailure == Tag(failed, "C20-call-after-failure")

Report(id, v) == /\ (v \ KnownIds # {} => PrintT(<<"BAD", id, v \ KnownIds>>))
                 /\ (v \cap KnownIds # {} => PrintT(<<"KNOWN", id, v \cap KnownIds>>))

(* ---- conformance layer ---- *)
PollRes(r) == CASE r.res = "dev" -> [kind |-> "dev", devs |-> r.devs] [] r.res = "timeout" -> [kind |-> "timeout"]
                [] r.res = "intr" -> [kind |-> "intr"] [] OTHER -> [kind |-> "err"]
ReadRes(r) == CASE r.res = "one" -> (IF r.c = "kbd" THEN [kind |-> "one", e |-> r.e] ELSE [kind |-> "one", on |-> r.on])
                [] r.res = "busy" -> [kind |-> "busy"] [] r.res = "end" -> [kind |-> "end"] [] OTHER -> [kind |-> "err"]
ConfStep(r) ==
  IF cs = Lost THEN Lost
  ELSE LET call == Call(cs) IN
       CASE r.c = "register" -> IF call.c = "register" THEN OnRegister(cs, r.res = "ok") ELSE Lost
         [] r.c = "poll" -> IF call.c = "poll" /\ call.timed = (r.timeout # -1) THEN OnPoll(cs, PollRes(r)) ELSE Lost
         [] r.c = "kbd" -> IF call.c = "kbd" THEN OnKbd(lay, cs, ReadRes(r)) ELSE Lost
         [] r.c = "tab" -> IF call.c = "tab" THEN OnTab(lay, cs, ReadRes(r)) ELSE Lost
         [] r.c = "send" -> IF call.c = "send" /\ call.evs = r.evs THEN OnSend(cs, r.res = "ok") ELSE Lost
         [] r.c = "ret" -> IF call.c = "ret" /\ call.ok = r.ok THEN cs ELSE Lost
Conf(r) == LET c2 == ConfStep(r) IN
           /\ cs' = c2
           /\ ((c2 = Lost /\ cs # Lost) =>
                 /\ Bump(2)
                 /\ (TLCGet(2) <= 3 => PrintT(<<"DRIFT", cur, l, "LoopCore expects", Call(cs), "the real loop did", r>>)))

(* ---- C11: the admissible value of a timed poll's timeout, from the stamps ---- *)
PollTiming(r) ==
  \* a timed poll while no repeat is pending only wakes the loop up for nothing: nothing the property forbids
  \* (the conformance layer reports it as DRIFT); what matters is that no chord is written then
  IF ~pend.on THEN {}
  ELSE IF r.timeout = -1 THEN {"C11-repeat-without-timer"}
  ELSE LET lo == pend.lo - r.tin      \* the wake-up instant is in [pend.lo, pend.hi]; the loop read the clock in [prevOut, r.tin]
           hi == (IF pend.open THEN r.tin + pend.delay * 1000 ELSE pend.hi) - prevOut
       IN IF lo > 0 THEN Tag(~(r.timeout >= lo - 1 - opt.slack /\ r.timeout <= hi + 1), "C11-timeout-off-schedule")
          ELSE IF hi <= 0 THEN Tag(~(r.timeout >= 0 /\ r.timeout <= 1000), "C11-overdue-timeout-too-long")
          ELSE Tag(~(r.timeout >= 0 /\ r.timeout <= (IF hi + 1 > 1000 THEN hi + 1 ELSE 1000)), "C11-timeout-off-schedule")

Reset(r) ==
  /\ cur' = r.id /\ lay' = r.layout /\ cs' = InitLoop /\ opt' = [slack |-> r.slack, errtext |-> r.errtext]
  /\ kq' = <<>> /\ tq' = <<>> /\ kN' = FALSE /\ tN' = FALSE /\ ended' = FALSE /\ failed' = FALSE /\ errmsg' = ""
  /\ inTab' = FALSE /\ afterTab' = FALSE /\ tabCleared' = FALSE /\ held' = {} /\ phys' = {} /\ mphys' = {} /\ aphys' = {} /\ must' = NoMust /\ pend' = NoPend /\ onJust' = FALSE /\ prevOut' = 0 /\ prevTimeout' = FALSE
  /\ viol' = {} /\ Report(cur, viol) /\ Bump(1)

ConsumeLine ==
  /\ l <= N /\ l' = l + 1 /\ flushed' = FALSE
  /\ LET r == Rec[l] IN
     IF r.c = "reset" THEN Reset(r)
     ELSE IF r.c = "su" THEN
       \* a call of the device start-up (full-stack runs; judged by StartupTrace.tla): here only the environment is replayed -
       \* what arrived, what the opener consumed - so that the loop part starts with the right buffer. The loop's own
       \* registration (EPOLL_CTL_ADD) reports a descriptor that is readable already.
       LET kq1 == kq \o r.arrK
           kq2 == IF r.k = "read" /\ r.res = "one" THEN Tail(kq1) ELSE kq1 IN
       /\ viol' = viol \cup Tag(r.k = "read" /\ r.res = "one" /\ (kq1 = <<>> \/ Head(kq1) # r.e), "ENV-wrong-event")
       /\ kq' = kq2 /\ kN' = (kq2 # <<>>) /\ prevOut' = r.tout
       /\ UNCHANGED <<cur, opt, lay, cs, tq, tN, ended, failed, errmsg, inTab, afterTab, tabCleared, held, phys, mphys, must, pend, onJust, prevTimeout>>
       /\ aphys' = HeldAfter(aphys, SelectSeq(r.arrK, LAMBDA e: e.t # "E"))
     ELSE IF r.c = "ret" THEN
       /\ viol' = viol \cup Owed
                    \cup Tag(r.panic, "C10-loop-panicked")
                    \cup Tag(failed /\ (r.ok \/ (opt.errtext /\ r.err # errmsg /\ ~("errhas" \in DOMAIN r /\ r.errhas))), "C20-error-not-returned")
                    \cup Tag(~failed /\ ~r.ok /\ ~r.panic, "C10-loop-returned-error")
                    \cup Tag(~failed /\ r.ok /\ ~ended, "C10-loop-returned-before-end-of-device")
       /\ Conf(r) /\ must' = NoMust /\ onJust' = FALSE
       /\ UNCHANGED <<cur, opt, lay, kq, tq, kN, tN, ended, failed, errmsg, inTab, afterTab, tabCleared, held, phys, mphys, aphys, pend, prevOut, prevTimeout>>
     ELSE
       LET kq1 == kq \o r.arrK   tq1 == tq \o TabQ(r.arrT)
           kN1 == kN \/ r.arrK # <<>>   tN1 == tN \/ r.arrT # <<>>
           isErr == r.res = "err"
           \* the clock read that arms the timer happens after the send of the firing step (if any) and before the next call
           \* (a read of the keyboard bounds it only when a write has been seen since the firing event was read: records of one and the same system call
           \* - a reader that fetches several events at once - lie before the loop has even been given the firing event)
           pendC == IF pend.on /\ pend.open /\ (r.c \in {"poll", "tab", "register"} \/ (r.c = "kbd" /\ pend.sent))
                    THEN [pend EXCEPT !.hi = r.tin + pend.delay * 1000, !.open = FALSE] ELSE pend
       IN
       /\ Conf(r) /\ prevOut' = r.tout /\ cur' = cur /\ lay' = lay /\ opt' = opt
       /\ aphys' = HeldAfter(aphys, SelectSeq(r.arrK, LAMBDA e: e.t # "E"))
       /\ failed' = (failed \/ isErr) /\ errmsg' = (IF isErr THEN r.err ELSE errmsg)
       /\ BumpIf(isErr, 7)
       /\ CASE r.c = "register" ->
                 /\ viol' = viol \cup AfterFailure
                 /\ kq' = kq1 /\ tq' = tq1 /\ kN' = kN1 /\ tN' = tN1
                 /\ UNCHANGED <<ended, inTab, afterTab, tabCleared, held, phys, mphys, must, pend, onJust, prevTimeout>>
            [] r.c = "poll" ->
                 LET fire == r.res = "timeout" /\ pend.on
                     chord == WantedChord(pend.keys, held)
                 IN
                 /\ viol' = viol \cup Owed \cup AfterFailure
                       \* C10: back to waiting while notified-about events are unread (state before this call's arrivals)
                       \cup Tag((kq # <<>> /\ ~kN) \/ (tq # <<>> /\ ~tN), "C10-poll-with-unread-events")
                       \* C12: the switch has reported a change, the loop was notified and goes back to waiting without reading it
                       \* (edge-triggered: it will not be told again) - it then does not know which mode the computer is in
                       \cup Tag(tq # <<>> /\ ~tN, "C12-tablet-event-left-unread")
                       \* C01 at the loop: the loop goes (back) to waiting, every key that ever went down has come up again (by everything
                       \* that has ARRIVED so far), and keys are still down on the virtual keyboard
                       \cup Tag(aphys = {} /\ held # {} /\ ~isErr, "C01-keys-held-while-waiting-although-every-key-was-released")
                       \* The next three are about what is DOWN ON THE DEVICE: `held` folds the writes that succeeded (a write that failed changed nothing
                       \* there). They can only fail in a run with an injected write failure that the loop survives (HEAD returns at the failure).
                       \* C12 at the device: the loop waits in tablet mode and keys are still down on the virtual keyboard
                       \cup Tag(inTab /\ held # {} /\ ~isErr, "C12-keys-down-on-the-virtual-keyboard-while-waiting-in-tablet-mode")
                       \* C02 at the device: the loop waits and a key is down on the virtual keyboard that neither is held (by what the loop has read)
                       \* nor is an output key of a mapping all of whose trigger keys are held
                       \cup Tag(~isErr /\ ~inTab /\ \E k \in held: k \notin phys /\ ~\E i \in 1..Len(lay): InSeq(lay[i].to, k) /\ \A j \in 1..Len(lay[i].from): lay[i].from[j] \in phys,
                               "C02-key-down-on-the-virtual-keyboard-while-waiting-without-justification")
                       \cup Tag(ended, "C10-call-after-end-of-device")
                       \cup (IF isErr THEN {} ELSE PollTiming(r))
                       \cup Tag(r.res = "dev" /\ \E i \in 1..Len(r.devs): (r.devs[i] = "K" /\ ~kN1) \/ (r.devs[i] = "T" /\ ~tN1), "ENV-bad-readiness")
                       \cup Tag(r.res = "timeout" /\ (kN1 \/ tN1), "ENV-timeout-while-ready")
                 /\ BumpIf(kq # <<>> \/ tq # <<>>, 8) /\ BumpIf(pend.on /\ r.timeout # -1 /\ ~isErr, 6)
                 /\ kq' = kq1 /\ tq' = tq1
                 /\ kN' = (kN1 /\ ~(r.res = "dev" /\ InSeq(r.devs, "K")))
                 /\ tN' = (tN1 /\ ~(r.res = "dev" /\ InSeq(r.devs, "T")))
                 \* an empty chord (no keys, or all of them held) owes nothing; writing an empty batch for it is tolerated
                 /\ must' = IF fire /\ ~inTab THEN [on |-> chord # <<>>, kind |-> IF chord # <<>> THEN "chord" ELSE "emptychord", evs |-> chord, on2 |-> FALSE, evs2 |-> <<>>, q |-> <<>>] ELSE NoMust
                 /\ pend' = IF fire /\ inTab THEN NoPend
                            ELSE IF fire THEN [pendC EXCEPT !.lo = @ + pend.interval * 1000, !.hi = @ + pend.interval * 1000]
                            ELSE pendC
                 /\ prevTimeout' = (r.res = "timeout") /\ onJust' = FALSE
                 /\ UNCHANGED <<ended, inTab, afterTab, tabCleared, held, phys, mphys>>
            [] r.c = "kbd" ->
                 LET one == r.res = "one"
                     \* a key that was up goes down: a further key event in every reading of C11 (a release or a repeated
                     \* press may be an event the mapper ignores, C09, and then leaves the repeat alone)
                     fresh == one /\ r.e.t = "P" /\ r.e.k \notin phys
                     \* ... and so is the release of a key the mapper was given as pressed (since the last tablet event), in a layout
                     \* without absorbing mappings: there the mapper considers held exactly the keys it was given, so it acts on the release
                     freshRel == one /\ r.e.t = "R" /\ r.e.k \in mphys /\ ~inTab /\ \A i \in 1..Len(lay): lay[i].absorbing = <<>>
                 IN
                 /\ viol' = viol \cup OwedAtRead \cup AfterFailure
                       \cup Tag(ended, "C10-call-after-end-of-device")
                       \cup Tag(r.res = "busy" /\ kq1 # <<>>, "ENV-busy-with-data")
                       \cup Tag(one /\ (kq1 = <<>> \/ Head(kq1) # r.e), "ENV-wrong-event")
                       \cup Tag(r.res = "end" /\ (kq1 = <<>> \/ Head(kq1) # EndEv), "ENV-wrong-end")
                       \* C11: "writes the repeat chord (those of ITS keys ... in LISTED order)": the request the loop works from must be
                       \* the repeat of a Special mapping of the layout, keys in the order the layout lists them
                       \cup Tag(one /\ ~inTab /\ r.ref.rep.kind = "Repeating"
                              /\ ~\E i \in 1..Len(lay): lay[i].repeat.kind = "Special" /\ lay[i].repeat.keys = r.ref.rep.keys
                                                           /\ lay[i].repeat.delay = r.ref.rep.delay /\ lay[i].repeat.interval = r.ref.rep.interval,
                              "C11-repeat-not-as-listed-in-the-layout")
                 /\ BumpIf(one /\ inTab, 9)
                 /\ kq' = (IF one THEN Tail(kq1) ELSE kq1) /\ tq' = tq1 /\ kN' = kN1 /\ tN' = tN1
                 /\ ended' = (ended \/ r.res = "end")
                 /\ must' = IF one /\ ~inTab
                            THEN [on |-> r.ref.ev # <<>>, kind |-> "step", evs |-> r.ref.ev, on2 |-> afterTab /\ r.ref2.ev # <<>>, evs2 |-> r.ref2.ev, q |-> QAfterRead]
                            ELSE IF must.kind = "step" /\ ~isErr THEN [NoMust EXCEPT !.q = QAfterRead]      \* busy / end / read in tablet mode: what is owed stays owed
                            ELSE NoMust
                 /\ pend' = IF ~one \/ inTab THEN pendC
                            ELSE IF r.ref.rep.kind = "NoChange" THEN (IF fresh \/ freshRel THEN NoPend ELSE pendC)
                            ELSE IF r.ref.rep.kind = "Disabled" THEN NoPend
                            ELSE [on |-> TRUE, keys |-> r.ref.rep.keys, interval |-> r.ref.rep.interval, delay |-> r.ref.rep.delay,
                                  lo |-> r.tout + r.ref.rep.delay * 1000, hi |-> 0, open |-> TRUE, sent |-> FALSE]
                 /\ prevTimeout' = FALSE /\ onJust' = FALSE
                 /\ tabCleared' = (tabCleared /\ ~(one /\ ~inTab /\ r.ref.rep.kind = "Repeating"))
                 /\ phys' = (IF ~one THEN phys ELSE IF r.e.t = "P" THEN phys \cup {r.e.k} ELSE phys \ {r.e.k})
                 /\ mphys' = (IF ~one \/ inTab THEN mphys ELSE IF r.e.t = "P" THEN mphys \cup {r.e.k} ELSE mphys \ {r.e.k})
                 /\ UNCHANGED <<inTab, afterTab, held>>
            [] r.c = "tab" ->
                 LET one == r.res = "one" IN
                 /\ viol' = viol \cup Owed \cup AfterFailure
                       \cup Tag(ended, "C10-call-after-end-of-device")
                       \cup Tag(r.res = "busy" /\ tq1 # <<>>, "ENV-busy-with-data")
                       \cup Tag(one /\ (tq1 = <<>> \/ Head(tq1) # r.on), "ENV-wrong-event")
                 /\ BumpIf(one /\ r.on /\ held # {}, 10)
                 /\ tq' = (IF one THEN Tail(tq1) ELSE tq1) /\ kq' = kq1 /\ kN' = kN1 /\ tN' = tN1
                 /\ inTab' = (IF one THEN r.on ELSE inTab) /\ afterTab' = (afterTab \/ one) /\ tabCleared' = (tabCleared \/ one)
                 /\ pend' = IF one THEN NoPend ELSE pendC
                 /\ must' = IF one THEN [on |-> r.ref.ev # <<>>, kind |-> "releaseall", evs |-> r.ref.ev, on2 |-> FALSE, evs2 |-> <<>>, q |-> <<>>] ELSE NoMust
                 /\ onJust' = (one /\ r.on) /\ prevTimeout' = FALSE
                 /\ mphys' = (IF one THEN {} ELSE mphys)
                 /\ UNCHANGED <<ended, held, phys>>
            [] r.c = "send" ->
                 LET chordKeyHeld == must.on /\ must.kind = "chord" /\ \E k \in held: InSeq(pend.keys, k)
                     isChord == must.on /\ must.kind = "chord"
                     \* a write owed for a key event read earlier comes first (see NoMust)
                     older == must.q # <<>> /\ r.evs # <<>>
                     \* everything owed for key events, oldest first; one write may carry the outputs of several consecutive steps (the events written are
                     \* then still exactly the mapper's outputs, each step's once and in order): the write is matched with the shortest run of owed outputs,
                     \* from the oldest on, whose concatenation it is
                     owedAll == must.q \o (IF must.on /\ must.kind = "step" THEN <<[evs |-> must.evs, on2 |-> must.on2, evs2 |-> must.evs2]>> ELSE <<>>)
                     runs == {k \in 1..Len(owedAll): FlattenSeq([i \in 1..k |-> owedAll[i].evs]) = r.evs}
                     k1 == IF runs = {} THEN 1 ELSE CHOOSE k \in runs: \A j \in runs: k <= j
                     rest == SubSeq(owedAll, k1 + 1, Len(owedAll))
                 IN
                 IF older THEN
                 /\ viol' = viol \cup AfterFailure
                       \cup Tag(ended, "C10-send-after-end-of-device")
                       \cup Tag(inTab, "C12-send-in-tablet-mode")
                       \cup Tag(runs = {}, "C10-wrong-payload-step")
                       \cup Tag(afterTab /\ r.evs # FlattenSeq([i \in 1..k1 |-> owedAll[i].evs2]), "C12-not-fresh-after-tablet-mode")
                       \cup Tag(~isErr /\ Redundant(held, r.evs), "C19-redundant-event-written-to-the-device")
                 /\ Bump(4)
                 /\ held' = (IF isErr THEN held ELSE HeldAfter(held, r.evs))
                 \* (what is left of the owed outputs stays owed; the newest stays in its place when it was not part of this write)
                 /\ must' = IF must.on /\ must.kind = "step"
                            THEN (IF k1 = Len(owedAll) THEN NoMust ELSE [must EXCEPT !.q = SubSeq(owedAll, k1 + 1, Len(owedAll) - 1)])
                            ELSE [must EXCEPT !.q = rest]
                 /\ pend' = (IF pend.on /\ pend.open THEN [pend EXCEPT !.lo = r.tout + pend.delay * 1000, !.sent = TRUE] ELSE pend)
                 /\ kq' = kq1 /\ tq' = tq1 /\ kN' = kN1 /\ tN' = tN1
                 /\ prevTimeout' = FALSE
                 /\ UNCHANGED <<ended, inTab, afterTab, tabCleared, onJust, phys, mphys>>
                 ELSE
                 /\ viol' = viol \cup AfterFailure
                       \cup Tag(ended, "C10-send-after-end-of-device")
                       \cup Tag(inTab /\ ~(must.on /\ must.kind = "releaseall"), "C12-send-in-tablet-mode")
                       \* an empty batch writes no event: neutral for C10/C11 (it neither is nor replaces an owed write); the
                       \* "nothing at all is written" clauses of C12 and C20 above and below still apply to it
                       \cup (IF r.evs = <<>> THEN {}
                             ELSE IF ~must.on
                             THEN (IF prevTimeout THEN {"C11-chord-at-wrong-time"} ELSE IF must.on2 THEN {} ELSE {"C10-unexpected-send"})
                             ELSE IF r.evs = must.evs THEN {}
                             ELSE IF must.kind = "chord" THEN {IF chordKeyHeld THEN "C11-chord-touches-held-key" ELSE "C11-chord-content"}
                             ELSE {"C10-wrong-payload-" \o must.kind})
                       \cup Tag(r.evs # <<>> /\ must.kind = "step" /\ afterTab /\ r.evs # must.evs2, "C12-not-fresh-after-tablet-mode")
                       \cup Tag(r.evs # <<>> /\ must.on /\ must.kind = "chord" /\ afterTab /\ r.evs # must.evs, "C12-chord-not-as-fresh-after-tablet-mode")
                       \cup Tag(r.evs # <<>> /\ ~must.on /\ ~must.on2 /\ ~prevTimeout /\ afterTab /\ ~inTab, "C12-write-a-fresh-loop-would-not-make-after-tablet-mode")
                       \cup Tag(isChord /\ HeldAfter(held, r.evs) # held, "C11-chord-not-transient")
                       \* C19 at the device: a key is pressed that is down there, or released that is up there (timer chords are C11's)
                       \cup Tag(~isChord /\ ~isErr /\ ~prevTimeout /\ Redundant(held, r.evs), "C19-redundant-event-written-to-the-device")
                       \* C12: a repeat chord although a tablet-mode switch was read since the last repeat was armed ("resumes as from a fresh start")
                       \cup Tag(r.evs # <<>> /\ tabCleared /\ prevTimeout /\ ~must.on, "C12-repeat-survives-tablet-switch")
                 /\ BumpIf(isChord, 3) /\ BumpIf(must.on /\ must.kind = "step", 4) /\ BumpIf(must.on /\ must.kind = "releaseall", 5)
                 /\ held' = (IF isErr THEN held ELSE HeldAfter(held, r.evs))
                 /\ must' = (IF r.evs = <<>> THEN must ELSE NoMust)
                 /\ pend' = (IF pend.on /\ pend.open THEN [pend EXCEPT !.lo = r.tout + pend.delay * 1000, !.sent = TRUE] ELSE pend)
                 /\ kq' = kq1 /\ tq' = tq1 /\ kN' = kN1 /\ tN' = tN1
                 /\ prevTimeout' = (prevTimeout /\ r.evs = <<>>)
                 /\ UNCHANGED <<ended, inTab, afterTab, tabCleared, onJust, phys, mphys>>

Flush == /\ l = N + 1 /\ ~flushed /\ flushed' = TRUE /\ Report(cur, viol)
         /\ UNCHANGED <<l, cur, opt, kq, tq, kN, tN, ended, failed, errmsg, inTab, afterTab, tabCleared, held, phys, mphys, aphys, must, pend, onJust, prevOut, prevTimeout, viol, cs, lay>>

Next == ConsumeLine \/ Flush
Spec == Init /\ [][Next]_vars

\* every line must have been consumed (one state per line, the initial state, and the flush)
Accepted == PrintT(<<"ACCEPTED", TLCGet("stats").diameter - 2, N, [i \in 1..NReg |-> TLCGet(i)]>>)
=============================================================================
