-------------------------- MODULE SupervisorTrace --------------------------
(***************************************************************************)
(* Trace validation of the REAL supervisor of `remap --auto-all-keyboards`  *)
(* (do_remapping_loop_auto_all_devices with the real inotify watch, the     *)
(* real list_keyboards / flag_excluded on a fabricated /proc and /sys, the   *)
(* real open_device and the real worker threads; `tmv supervise`) against    *)
(* the machine of spec/Supervisor.tla.  TRACE = ndjson: per run a `reset`    *)
(* line, the recorded calls, a `ret` line.  The environment (device list,    *)
(* permissions, who holds a grab, which workers have ended) is replayed      *)
(* from the logged `env` / `wend` records; every answer the recorder gave    *)
(* is checked against it (ENV-... = the recorder misbehaved: a tool error).  *)
(*                                                                           *)
(* Clauses.  C16-auto-...: what C16 says about selection, seen on this       *)
(* discovery path (a device outside the selectable keyboards is opened; a    *)
(* listed, selectable keyboard that has no worker and never failed to open   *)
(* is not opened before the supervisor goes back to waiting).  SV-...: the   *)
(* supervisor's own obligations (Supervisor.tla's invariants), not listed    *)
(* properties: reported as auxiliary findings, never as a VIOLATION.         *)
(***************************************************************************)
EXTENDS Naturals, Sequences, FiniteSets, TLC, TLCExt, Json, IOUtils

Rec == ndJsonDeserialize(IOEnv.TRACE)
N == Len(Rec)

VARIABLES l, cur, dyn, present, badperm, grabby, devof, children, ended, listed, attempted, failed, lf, viol, flushed, stopped
vars == <<l, cur, dyn, present, badperm, grabby, devof, children, ended, listed, attempted, failed, lf, viol, flushed, stopped>>

\* registers: 1 runs, 2 rounds (waits), 3 open attempts, 4 workers started, 5 workers ended, 6 attempts answered EBUSY (grab held by a dead worker's descriptor),
\*            7 rounds in which a listed keyboard already had its worker, 8 runs that returned with the list failure
NReg == 8
Bump(i) == TLCSet(i, TLCGet(i) + 1)
BumpIf(c, i) == c => Bump(i)
Tag(c, t) == IF c THEN {t} ELSE {}
SeqSet(s) == {s[i]: i \in 1..Len(s)}

Init == /\ l = 1 /\ cur = "" /\ dyn = <<>> /\ present = {} /\ badperm = {} /\ grabby = <<>> /\ devof = <<>> /\ children = {} /\ ended = {}
        /\ listed = <<>> /\ attempted = {} /\ failed = {} /\ lf = FALSE /\ viol = {} /\ flushed = FALSE /\ stopped = FALSE
        /\ \A i \in 1..NReg: TLCSet(i, 0)

Report(id, v) == v # {} => PrintT(<<"SV-BAD", id, v>>)
InOrder(S) == SelectSeq(dyn, LAMBDA d: d \in S)
HasChild(d) == \E w \in children: devof[w] = d
Holder(d) == IF d \in DOMAIN grabby THEN grabby[d] ELSE 0

\* end of a round: the supervisor goes back to waiting
RoundClauses ==
  LET owed == {d \in SeqSet(listed): ~HasChild(d) /\ d \notin attempted}
  IN Tag(owed \ failed # {}, "C16-auto-listed-keyboard-not-opened")
     \cup Tag(owed \cap failed # {}, "SV-device-that-failed-before-not-retried")

Step(r) ==
  CASE r.c = "env" ->
         /\ CASE r.a = "appear" -> /\ present' = present \cup {r.d}
                                   /\ badperm' = (IF r.x = "bad" THEN badperm \cup {r.d} ELSE badperm \ {r.d})
                                   /\ grabby' = [d \in DOMAIN grabby \cup {r.d} |-> IF d = r.d THEN 0 ELSE grabby[d]]
                                   /\ lf' = lf
              [] r.a = "vanish" -> present' = present \ {r.d} /\ badperm' = badperm \ {r.d} /\ UNCHANGED <<grabby, lf>>
              [] r.a = "fixperm" -> badperm' = badperm \ {r.d} /\ UNCHANGED <<present, grabby, lf>>
              [] r.a = "listfail" -> lf' = TRUE /\ UNCHANGED <<present, badperm, grabby>>
              [] OTHER -> UNCHANGED <<present, badperm, grabby, lf>>
         /\ UNCHANGED <<devof, children, ended, listed, attempted, failed, viol, stopped>>
    [] r.c = "wend" ->
         /\ viol' = viol \cup Tag(~r.exited, "ENV-worker-thread-did-not-exit") \cup Tag(r.w \notin children, "ENV-end-of-a-worker-the-supervisor-does-not-hold")
         /\ ended' = ended \cup {r.w} /\ Bump(5)
         /\ UNCHANGED <<present, badperm, grabby, devof, children, listed, attempted, failed, lf, stopped>>
    [] r.c = "noworker" ->
         \* the schedule (a behaviour of Supervisor.tla) ends a worker here, and the real supervisor has none running for that device
         /\ viol' = viol \cup {"SV-no-worker-where-Supervisor-tla-has-one"}
         /\ UNCHANGED <<present, badperm, grabby, devof, children, ended, listed, attempted, failed, lf, stopped>>
    [] r.c = "wait" ->
         /\ viol' = viol \cup RoundClauses \cup Tag(stopped, "SV-call-after-the-list-failed")
         /\ Bump(2) /\ BumpIf(\E d \in SeqSet(listed): HasChild(d) /\ d \notin attempted, 7)
         /\ UNCHANGED <<present, badperm, grabby, devof, children, ended, listed, attempted, failed, lf, stopped>>
    [] r.c = "list" ->
         \* the reap precedes the list: every worker that has ended is no longer held
         /\ children' = children \ ended /\ ended' = {} /\ attempted' = {}
         /\ listed' = (IF r.res = "ok" THEN r.present ELSE <<>>)
         /\ stopped' = (r.res # "ok")
         /\ viol' = viol \cup Tag(r.res = "ok" /\ r.present # InOrder(present), "ENV-list-differs-from-the-environment")
                         \cup Tag((r.res = "ok") = lf, "ENV-list-answer")
         /\ UNCHANGED <<present, badperm, grabby, devof, failed, lf>>
    [] r.c = "kopen" ->
         LET sel == r.d \in SeqSet(dyn)
             want == IF r.d \notin present THEN "enoent" ELSE IF r.d \in badperm THEN "eacces" ELSE "ok"
         IN /\ viol' = viol \cup Tag(~sel, "C16-auto-device-outside-the-selectable-keyboards-opened")
                            \cup Tag(sel /\ HasChild(r.d), "SV-second-worker-for-a-device-path")
                            \cup Tag(sel /\ r.d \notin SeqSet(listed), "SV-open-of-a-device-not-in-this-round-s-list")
                            \cup Tag(sel /\ r.res # want, "ENV-open-answer")
                            \cup Tag(stopped, "SV-call-after-the-list-failed")
            /\ attempted' = attempted \cup {r.d}
            /\ failed' = (IF r.res # "ok" THEN failed \cup {r.d} ELSE failed)
            /\ Bump(3)
            /\ UNCHANGED <<present, badperm, grabby, devof, children, ended, listed, lf, stopped>>
    [] r.c = "grab" ->
         LET busy == Holder(r.d) # 0
         IN /\ viol' = viol \cup Tag((r.res = "ebusy") # busy, "ENV-grab-answer")
            /\ devof' = [w \in DOMAIN devof \cup {r.w} |-> IF w = r.w THEN r.d ELSE devof[w]]
            /\ grabby' = (IF r.res = "ok" THEN [d \in DOMAIN grabby \cup {r.d} |-> IF d = r.d THEN r.w ELSE grabby[d]] ELSE grabby)
            /\ failed' = (IF r.res # "ok" THEN failed \cup {r.d} ELSE failed)
            /\ BumpIf(r.res = "ebusy", 6)
            /\ UNCHANGED <<present, badperm, children, ended, listed, attempted, lf, stopped>>
    [] r.c = "created" ->
         \* the uinput device exists: open_device is through, the worker thread is spawned next
         /\ viol' = viol \cup Tag(Holder(r.d) # r.w, "SV-worker-started-without-the-grab")
         /\ children' = children \cup {r.w} /\ Bump(4)
         /\ UNCHANGED <<present, badperm, grabby, devof, ended, listed, attempted, failed, lf, stopped>>
    [] r.c = "ret" ->
         /\ viol' = viol \cup Tag(r.left > 0 \/ ~lf, "SV-supervisor-returned-before-the-device-list-failed")
                         \cup Tag(r.res = "panic", "SV-supervisor-panicked")
                         \cup Tag(r.res = "ok", "SV-list-failure-not-reported")
         /\ BumpIf(r.res = "err" /\ lf /\ r.left = 0, 8)
         /\ UNCHANGED <<present, badperm, grabby, devof, children, ended, listed, attempted, failed, lf, stopped>>
    [] OTHER ->   \* uopen, msg
         UNCHANGED <<present, badperm, grabby, devof, children, ended, listed, attempted, failed, lf, viol, stopped>>

ConsumeLine ==
  /\ l <= N /\ l' = l + 1 /\ flushed' = FALSE
  /\ LET r == Rec[l] IN
     IF r.c = "reset"
     THEN /\ Report(cur, viol)
          /\ cur' = r.id /\ dyn' = r.devs /\ present' = {} /\ badperm' = {} /\ grabby' = <<>> /\ devof' = <<>> /\ children' = {} /\ ended' = {}
          /\ listed' = <<>> /\ attempted' = {} /\ failed' = {} /\ lf' = FALSE /\ viol' = {} /\ stopped' = FALSE
          /\ Bump(1)
     ELSE Step(r) /\ UNCHANGED <<cur, dyn>>

Flush == /\ l = N + 1 /\ ~flushed /\ flushed' = TRUE /\ Report(cur, viol)
         /\ UNCHANGED <<l, cur, dyn, present, badperm, grabby, devof, children, ended, listed, attempted, failed, lf, viol, stopped>>

Next == ConsumeLine \/ Flush
Spec == Init /\ [][Next]_vars
Accepted == PrintT(<<"SV-ACCEPTED", TLCGet("stats").diameter - 2, N, [i \in 1..NReg |-> TLCGet(i)]>>)
=============================================================================
