------------------------------- MODULE Mapper -------------------------------
(***************************************************************************)
(* The key press/release state machine of src/key_transforms.rs.           *)
(*                                                                         *)
(* Written to be bound to the code, not admired: one operator per Rust     *)
(* function, a sequence wherever the code uses a Vec (event order and the   *)
(* order of the bookkeeping lists are observable), the same seven state    *)
(* fields.  Deliberate oddities of the code are modelled as they are (the  *)
(* single shared absorbing trigger, absorbed keys leaving `input` when      *)
(* they are flushed).  Everything is a pure operator so that the same text *)
(* serves the design-level model (MapperSpecMC), the conformance check     *)
(* against the tabulated implementation (MapperImplMC), the loop model      *)
(* (Loop, which embeds a mapper) and trace validation (LoopTrace).         *)
(*                                                                         *)
(* A mapping is [from, to, repeat, absorbing]; repeat is [kind |-> ..] with*)
(* kind "Normal" | "Disabled" | "Special" (+ keys, delay, interval).        *)
(* An event is [t |-> "P" | "R", k |-> key name].                          *)
(***************************************************************************)
EXTENDS Naturals, Sequences, FiniteSets, SequencesExt

Modifiers == {"LEFTSHIFT","RIGHTSHIFT","LEFTMETA","RIGHTMETA","LEFTCTRL","RIGHTCTRL","LEFTALT","RIGHTALT"}
IsActionKey(k) == k \notin Modifiers

P(k) == [t |-> "P", k |-> k]
R(k) == [t |-> "R", k |-> k]
Rs(ks) == [i \in 1..Len(ks) |-> R(ks[i])]

None == <<>>
Some(x) == <<x>>

InitState == [input |-> <<>>, active |-> <<>>, pass |-> <<>>, mapped |-> <<>>,
              absorbed |-> <<>>, abstrig |-> None, reptrig |-> None]

FinalKey(trigger) == trigger[Len(trigger)]

NoDup(s) == \A i, j \in 1..Len(s): s[i] = s[j] => i = j
\* make_hashed_layout panics ("Duplicate key in from" / "to") unless this holds; it also indexes
\* the last trigger key, so an empty trigger panics too
ValidLayout(layout) == \A i \in 1..Len(layout): Len(layout[i].from) > 0 /\ NoDup(layout[i].from) /\ NoDup(layout[i].to)

IsSupported(trigger, pressed, absorbed, newKey) ==
  \A i \in 1..Len(trigger):
     (Contains(pressed, trigger[i]) /\ ~Contains(absorbed, trigger[i])) \/ trigger[i] = newKey

IsActionMapping(m) == Len(m.to) > 0 /\ IsActionKey(m.to[Len(m.to)])
IsAnyModifier(ks) == \E i \in 1..Len(ks): ~IsActionKey(ks[i])

Without(s, ks) == SelectSeq(s, LAMBDA k: ~Contains(ks, k))

\* release_action_mappings
ReleaseActionMappings(st) ==
  LET add(acc, m) == IF IsActionMapping(m) /\ Len(m.to) > 1 /\ IsAnyModifier(m.to)
                     THEN acc \o SelectSeq(Reverse(m.to), LAMBDA k: Contains(st.mapped, k) /\ ~Contains(acc, k))
                     ELSE acc
      ktr == FoldLeft(add, <<>>, st.active)
  IN [st |-> [st EXCEPT !.mapped = Without(@, ktr), !.pass = Without(@, ktr)], ev |-> Rs(ktr)]

\* release_all_action_keys
ReleaseAllActionKeys(st) ==
  LET a == SelectSeq(st.pass, IsActionKey)
      b == SelectSeq(st.mapped, IsActionKey)
  IN [st |-> [st EXCEPT !.pass = SelectSeq(@, LAMBDA k: ~IsActionKey(k)),
                        !.mapped = SelectSeq(@, LAMBDA k: ~IsActionKey(k))],
      ev |-> Rs(a \o b)]

\* remove_mapping(state, i, removed_key)
RemoveMapping(st, i, removedKey) ==
  LET others == {j \in 1..Len(st.active): j # i}
      StillUsed(k) == \E j \in others: Contains(st.active[j].to, k)
      Shadowed(k) == \E j \in others: Contains(st.active[j].from, k)
      HandOver(k) == ~StillUsed(k) /\ Contains(st.input, k) /\ k # removedKey /\ ~Shadowed(k)
      rev == Reverse(st.mapped)
  IN [st |-> [st EXCEPT !.mapped = SelectSeq(@, StillUsed),
                        !.pass = @ \o SelectSeq(rev, HandOver),
                        !.active = RemoveAt(@, i)],
      ev |-> Rs(SelectSeq(rev, LAMBDA k: ~StillUsed(k) /\ ~HandOver(k)))]

RECURSIVE RemoveFailing(_, _, _)
RemoveFailing(st, i, k) ==
  IF i = 0 THEN [st |-> st, ev |-> <<>>]
  ELSE IF Contains(st.active[i].from, k)
       THEN LET r == RemoveMapping(st, i, k)
                rest == RemoveFailing(r.st, i - 1, k)
            IN [st |-> rest.st, ev |-> r.ev \o rest.ev]
       ELSE RemoveFailing(st, i - 1, k)

LastIndexOf(s, k) == IF Contains(s, k) THEN CHOOSE i \in 1..Len(s): s[i] = k /\ \A j \in (i+1)..Len(s): s[j] # k ELSE 0

\* the common tail of newly_release and of one iteration of release_absorbed_keys
DropKey(st, k) ==
  LET r1 == RemoveFailing(st, Len(st.active), k)
      li == LastIndexOf(r1.st.pass, k)
      st2 == IF li = 0 THEN r1.st ELSE [r1.st EXCEPT !.pass = RemoveAt(@, li)]
      ev2 == IF li = 0 THEN <<>> ELSE <<R(k)>>
  IN [st |-> [st2 EXCEPT !.input = SelectSeq(@, LAMBDA x: x # k)], ev |-> r1.ev \o ev2]

RECURSIVE DropKeys(_, _)
DropKeys(st, ks) ==
  IF ks = <<>> THEN [st |-> st, ev |-> <<>>]
  ELSE LET r == DropKey(st, Head(ks))
           rest == DropKeys(r.st, Tail(ks))
       IN [st |-> rest.st, ev |-> r.ev \o rest.ev]

\* release_absorbed_keys
ReleaseAbsorbedKeys(st) ==
  DropKeys([st EXCEPT !.absorbed = <<>>, !.abstrig = None], st.absorbed)

RECURSIVE PressOutputs(_, _)
PressOutputs(st, ks) ==
  IF ks = <<>> THEN [st |-> st, ev |-> <<>>]
  ELSE LET k == Head(ks)
           r == IF IsActionKey(k)
                THEN IF Contains(st.mapped, k) THEN [st |-> st, ev |-> <<R(k), P(k)>>]
                     ELSE IF Contains(st.pass, k)
                          THEN [st |-> [st EXCEPT !.pass = SelectSeq(@, LAMBDA x: x # k), !.mapped = Append(@, k)],
                                ev |-> <<R(k), P(k)>>]
                          ELSE [st |-> [st EXCEPT !.mapped = Append(@, k)], ev |-> <<P(k)>>]
                ELSE IF ~Contains(st.mapped, k) /\ ~Contains(st.pass, k)
                     THEN [st |-> [st EXCEPT !.mapped = Append(@, k)], ev |-> <<P(k)>>]
                     ELSE [st |-> st, ev |-> <<>>]
           rest == PressOutputs(r.st, Tail(ks))
       IN [st |-> rest.st, ev |-> r.ev \o rest.ev]

\* the pass-through keys the new mapping touches are consumed: released unless the mapping outputs them,
\* in which case they become mapped outputs (first block of add_new_mapping, and again after
\* release_absorbed_keys, which may have handed keys back to pass-through)
Consume(st, m) ==
  LET touched(k) == Contains(m.from, k) \/ Contains(m.to, k)
      relPass == SelectSeq(st.pass, LAMBDA k: touched(k) /\ ~Contains(m.to, k))
      movPass == SelectSeq(st.pass, LAMBDA k: touched(k) /\ Contains(m.to, k))
  IN [st |-> [st EXCEPT !.pass = SelectSeq(@, LAMBDA k: ~touched(k)), !.mapped = @ \o movPass], ev |-> Rs(relPass)]

\* add_new_mapping(state, new_key, m)
AddNewMapping(st, newKey, m) ==
  LET c1 == Consume(st, m)
      s1 == c1.st
      e1 == c1.ev
      r2 == IF IsActionMapping(m)
            THEN LET a == ReleaseActionMappings(s1)
                     b == IF a.st.abstrig = None \/ a.st.abstrig # Some(newKey)
                          THEN LET x == ReleaseAbsorbedKeys(a.st)
                                   y == Consume(x.st, m)
                               IN [st |-> y.st, ev |-> x.ev \o y.ev]
                          ELSE [st |-> a.st, ev |-> <<>>]
                 IN [st |-> b.st, ev |-> a.ev \o b.ev]
            ELSE [st |-> s1, ev |-> <<>>]
      r3 == PressOutputs(r2.st, m.to)
      newAbs == SelectSeq(m.absorbing, LAMBDA k: ~Contains(r3.st.absorbed, k))
      s4 == [r3.st EXCEPT !.absorbed = @ \o newAbs,
                          !.abstrig = IF Len(m.absorbing) > 0 THEN Some(newKey) ELSE @,
                          !.active = Append(@, m)]
      ev4 == e1 \o r2.ev \o r3.ev
  IN CASE m.repeat.kind = "Normal" -> [st |-> s4, ev |-> ev4, rep |-> [kind |-> "Disabled"]]
       [] m.repeat.kind = "Disabled" ->
            LET r5 == ReleaseAllActionKeys(s4) IN [st |-> r5.st, ev |-> ev4 \o r5.ev, rep |-> [kind |-> "Disabled"]]
       [] m.repeat.kind = "Special" ->
            LET r5 == ReleaseAllActionKeys(s4)
            IN [st |-> [r5.st EXCEPT !.reptrig = Some(newKey)], ev |-> ev4 \o r5.ev,
                rep |-> [kind |-> "Repeating", keys |-> m.repeat.keys, delay |-> m.repeat.delay, interval |-> m.repeat.interval]]

\* newly_press
NewlyPress(layout, st0, k) ==
  LET st == [st0 EXCEPT !.absorbed = SelectSeq(@, LAMBDA x: x # k), !.reptrig = None]
      group == SelectSeq(layout, LAMBDA m: FinalKey(m.from) = k)
      shouldAbsorb == st.abstrig = None \/ st.abstrig # Some(k)
      absKeys == IF shouldAbsorb THEN st.absorbed ELSE <<>>
      sup == {i \in 1..Len(group): IsSupported(group[i].from, st.input, absKeys, k)}
      mentioned == \E i \in 1..Len(st.active): Contains(st.active[i].from, k) \/ Contains(st.active[i].to, k)
      r == IF sup # {}
           THEN AddNewMapping(st, k, group[CHOOSE i \in sup: \A j \in sup: j <= i])
           ELSE IF mentioned \/ Contains(st.pass, k)
                THEN [st |-> st, ev |-> <<>>, rep |-> [kind |-> "Disabled"]]
                ELSE LET a == IF IsActionKey(k)
                              THEN LET x == ReleaseActionMappings(st)
                                       y == ReleaseAbsorbedKeys(x.st)
                                   IN [st |-> y.st, ev |-> x.ev \o y.ev]
                              ELSE [st |-> st, ev |-> <<>>]
                     IN [st |-> [a.st EXCEPT !.pass = Append(@, k)], ev |-> Append(a.ev, P(k)), rep |-> [kind |-> "Disabled"]]
  IN [st |-> [r.st EXCEPT !.input = Append(@, k)], ev |-> r.ev, rep |-> r.rep]

NewlyRelease(st, k) ==
  LET r == DropKey(st, k) IN [st |-> r.st, ev |-> r.ev, rep |-> [kind |-> "Disabled"]]

\* Mapper::step
Step(layout, st, e) ==
  IF e.t = "P"
  THEN IF Contains(st.input, e.k) THEN [st |-> st, ev |-> <<>>, rep |-> [kind |-> "NoChange"]]
       ELSE NewlyPress(layout, st, e.k)
  ELSE IF Contains(st.input, e.k) THEN NewlyRelease(st, e.k)
       ELSE [st |-> st, ev |-> <<>>, rep |-> [kind |-> "NoChange"]]

\* Mapper::release_all
RECURSIVE ReleaseAllLoop(_, _, _)
ReleaseAllLoop(layout, st, ks) ==
  IF ks = <<>> THEN [st |-> st, ev |-> <<>>]
  ELSE LET r == Step(layout, st, R(Head(ks)))
           rest == ReleaseAllLoop(layout, r.st, Tail(ks))
       IN [st |-> rest.st, ev |-> r.ev \o rest.ev]
ReleaseAll(layout, st) == ReleaseAllLoop(layout, st, st.input)
=============================================================================
