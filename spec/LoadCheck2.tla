----------------------------- MODULE LoadCheck2 -----------------------------
(* LoadCheck on slimmed results {id, os}: only the outcomes (the mapping lists of accepted inputs *)
(* are large and not needed for the verdict).                                                    *)
EXTENDS Naturals, Sequences, FiniteSets, TLC, Json, IOUtils
CONSTANT KnownIds
Res == ndJsonDeserialize(IOEnv.RESULTS)
Outcomes(r) == {r.os[i]: i \in 1..Len(r.os)}
Verdict(r) == IF "panic" \in Outcomes(r) THEN {"C14-loader-panic"}
              ELSE IF Outcomes(r) # {} /\ Outcomes(r) \subseteq {"ok", "err"} THEN {} ELSE {"C14-no-outcome"}
Judge(i) == LET r == Res[i]  v == Verdict(r) IN
            v # {} => PrintT(<<IF v \subseteq KnownIds THEN "KNOWN" ELSE "BAD", r.id, v>>)
ASSUME \A i \in 1..Len(Res): Judge(i)
ASSUME PrintT(<<"JUDGED", Len(Res), Cardinality({i \in 1..Len(Res): "ok" \in Outcomes(Res[i])}), Cardinality({i \in 1..Len(Res): "err" \in Outcomes(Res[i])})>>)
VARIABLE x
Init == x = 0
Next == x' = x
=============================================================================
