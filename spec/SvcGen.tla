------------------------------- MODULE SvcGen -------------------------------
(***************************************************************************)
(* Case generator for C17: exclude patterns (sequences of code points) and  *)
(* lists of patterns over the syntax-relevant alphabet of the ExecStart     *)
(* reader.  TLC enumerates the sets and writes them as ndjson to IOEnv.OUT. *)
(***************************************************************************)
EXTENDS Naturals, Sequences, FiniteSets, SequencesExt, TLC, Json, IOUtils
CONSTANT Depth    \* 2: all strings up to length 2 (+ introducer triples); 3: all up to length 3 (+ introducer quadruples)

\* \ ' " space tab NL CR % $ { } ; * ?  I(specifier) x u U s n  a(hex digit) 0(octal digit)  BEL  ^A  DEL  NEL(C1)  e-acute  emoji
Alphabet == <<92, 39, 34, 32, 9, 10, 13, 37, 36, 123, 125, 59, 42, 63, 73, 120, 117, 85, 115, 110, 97, 48, 7, 1, 127, 133, 233, 128512>>
Sym == {Alphabet[i]: i \in 1..Len(Alphabet)}
Intro == {92, 37, 36}                 \* the characters that start an escape, a specifier, a variable

S1 == {<<a>>: a \in Sym}
S2 == {<<a, b>>: a \in Sym, b \in Sym}
S3i == {<<a, b, c>>: a \in Intro, b \in Sym, c \in Sym}
S3 == {<<a, b, c>>: a \in Sym, b \in Sym, c \in Sym}
S4i == {<<a, b, c, d>>: a \in Intro, b \in Intro \cup {39, 34, 123, 120}, c \in Sym, d \in Sym}
Patterns == S1 \cup S2 \cup S3i \cup (IF Depth >= 3 THEN S3 \cup S4i ELSE {})
\* lists: the neighbours of a pattern must not disturb it
Lists == {<<p, q>>: p \in S1, q \in S1} \cup {<<p, q, p>>: p \in S1, q \in {<<39>>, <<34>>, <<92>>, <<59>>, <<32>>}}
Cases == SetToSeq({<<p>>: p \in Patterns} \cup Lists)
ASSUME ndJsonSerialize(IOEnv.OUT, [i \in 1..Len(Cases) |-> [id |-> i, pats |-> Cases[i]]])
ASSUME PrintT(<<"GENERATED", Len(Cases)>>)
VARIABLE x
Init == x = 0
Next == x' = x
=============================================================================
