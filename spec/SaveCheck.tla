------------------------------ MODULE SaveCheck ------------------------------
(***************************************************************************)
(* Judge for C15.  RESULTS = ndjson from `tmv roundtrip`: the layout that   *)
(* was saved (`orig`, as the real converter produced it or as generated),    *)
(* whether saving worked, and what load_layout_from_file made of the saved   *)
(* file.  The reloaded mapping list must be identical: same mappings, same   *)
(* order, same triggers, outputs, repeat settings and absorbing lists.       *)
(***************************************************************************)
EXTENDS Naturals, Sequences, FiniteSets, TLC, Json, IOUtils
CONSTANT KnownIds
Res == ndJsonDeserialize(IOEnv.RESULTS)
Verdict(r) ==
  IF ~r.have THEN {}        \* the source program was not accepted: nothing to save
  ELSE IF ~r.saved THEN {"C15-save-failed"}
  ELSE IF r.o = "panic" THEN {"C15-reload-panics"}
  ELSE IF r.o # "ok" THEN {"C15-reload-rejected"}
  ELSE IF Len(r.mappings) # Len(r.orig) THEN {"C15-mapping-count"}
  ELSE IF r.mappings # r.orig THEN {"C15-mappings-differ"} ELSE {}
Judge(i) == LET r == Res[i]  v == Verdict(r) IN
            v # {} => PrintT(<<IF v \subseteq KnownIds THEN "KNOWN" ELSE "BAD", r.id, v>>)
ASSUME \A i \in 1..Len(Res): Judge(i)
ASSUME PrintT(<<"JUDGED", Len(Res), Cardinality({i \in 1..Len(Res): Res[i].have /\ Res[i].orig # <<>>})>>)
VARIABLE x
Init == x = 0
Next == x' = x
=============================================================================
