------------------------------- MODULE SaveGen -------------------------------
(***************************************************************************)
(* Case generator for C15: basic layouts of a bounded family (what the      *)
(* converter can produce: empty outputs, Special repeats with empty and      *)
(* multi-key chords and extreme numbers, multi-key triggers, absorbing       *)
(* lists), written as ndjson to IOEnv.OUT.                                   *)
(* Design-level check on the way: writing a basic layout in the saved form   *)
(* and reading it with the reference semantics of the layout language gives  *)
(* the layout back: Expand(SavedAsProgram(L)).mappings = L.                  *)
(***************************************************************************)
EXTENDS Fancy, TLC, Json, IOUtils
CONSTANT Size

Froms == {<<"A">>, <<"LEFTSHIFT", "A">>, <<"CAPSLOCK", "X", "1">>, <<"RIGHTALT">>}
         \cup (IF Size >= 2 THEN {<<"LEFTCTRL", "LEFTSHIFT", "RIGHTSHIFT", "0">>, <<"KPASTERISK">>} ELSE {})
Tos == {<<>>, <<"B">>, <<"LEFTCTRL", "B">>, <<"1", "0">>} \cup (IF Size >= 2 THEN {<<"LEFTSHIFT", "RIGHTALT", "F24">>, <<"LEFTSHIFT">>} ELSE {})
Chords == {<<>>, <<"F21">>, <<"LEFTCTRL", "F20">>}
Nums == {<<180, 30>>, <<0, 0>>, <<2147483647, 1>>, <<-1, -2147483647>>}
Reps == {Normal, Disabled} \cup {[kind |-> "Special", keys |-> c, delay |-> n[1], interval |-> n[2]]: c \in Chords, n \in Nums}
AbsOf(f) == {<<>>} \cup (IF Len(f) >= 2 THEN {<<f[1]>>} ELSE {}) \cup (IF Len(f) >= 3 THEN {<<f[2], f[1]>>} ELSE {})
Mappings == UNION {{BM(f, t, r, a): t \in Tos, r \in Reps, a \in AbsOf(f)}: f \in Froms}
\* a few fixed companions so that two- and three-mapping layouts stay enumerable
Companions == {BM(<<"A">>, <<"B">>, Normal, <<>>), BM(<<"LEFTSHIFT", "A">>, <<>>, Disabled, <<>>),
               BM(<<"A">>, <<"A">>, [kind |-> "Special", keys |-> <<"F21">>, delay |-> 1, interval |-> 2], <<>>)}
Layouts == {<<>>} \cup {<<m>>: m \in Mappings} \cup {<<m, c>>: m \in Mappings, c \in Companions} \cup {<<c, m>>: m \in Mappings, c \in Companions}
           \cup (IF Size >= 2 THEN {<<c, m, d>>: m \in Mappings, c \in Companions, d \in Companions} ELSE {})

\* the program that the saved JSON of a basic mapping is, in the abstract syntax of the layout language
Ks(s) == [i \in 1..Len(s) |-> K(s[i])]
SavedItem(m) ==
  [ty |-> "single", mods |-> Ks(Front(m.from)), key |-> m.from[Len(m.from)],
   tomods |-> IF m.to = <<>> THEN <<>> ELSE Ks(Front(m.to)), toterm |-> IF m.to = <<>> THEN <<>> ELSE <<m.to[Len(m.to)]>>,
   rep |-> IF m.repeat.kind # "Special" THEN m.repeat
           ELSE [kind |-> "Special", tomods |-> IF m.repeat.keys = <<>> THEN <<>> ELSE Ks(Front(m.repeat.keys)),
                 toterm |-> IF m.repeat.keys = <<>> THEN <<>> ELSE <<m.repeat.keys[Len(m.repeat.keys)]>>,
                 delay |-> m.repeat.delay, interval |-> m.repeat.interval],
   abs |-> Ks(m.absorbing)]
SavedAsProgram(L) == [i \in 1..Len(L) |-> SavedItem(L[i])]

Cases == SetToSeq(Layouts)
ASSUME \A i \in 1..Len(Cases): LET e == Expand(SavedAsProgram(Cases[i])) IN
          (e.ok /\ e.mappings = Cases[i]) \/ PrintT(<<"SPEC-ROUNDTRIP-FAILS", Cases[i]>>)
ASSUME ndJsonSerialize(IOEnv.OUT, [i \in 1..Len(Cases) |-> [id |-> i, layout |-> Cases[i]]])
ASSUME PrintT(<<"GENERATED", Len(Cases)>>)
VARIABLE x
Init == x = 0
Next == x' = x
=============================================================================
