------------------------------ MODULE LoopCore ------------------------------
(***************************************************************************)
(* The per-device event loop of src/remapping_loop.rs                       *)
(* (do_remapping_loop_one_device) as a deterministic machine over its        *)
(* control state, driven by the answers of the five driver calls:            *)
(*   Call(ls)            the driver call the loop makes next in state ls     *)
(*   OnRegister / OnPoll / OnKbd / OnTab / OnSend                            *)
(*                       the state after the driver answered                 *)
(* One operator per driver call, as the code has one call site per call.     *)
(* The clock is left out here (wr carries delay and interval, not the        *)
(* wake-up instant): timing is added by LoopTimed and, for real traces, by   *)
(* the interval arithmetic of LoopTrace.  Everything is a pure operator, so  *)
(* the same text serves the environment model (Loop), the schedule           *)
(* generator and trace validation of the real loop (LoopTrace).              *)
(***************************************************************************)
EXTENDS Mapper, Integers

Idle == [kind |-> "Idle"]
NoRep == [kind |-> "NoChange"]

\* loop-local variables of do_remapping_loop_one_device + a program counter
InitLoop == [pc |-> "register",      \* register | poll | kbd | tab | send | done | failed
             devs |-> <<>>,          \* devices still to drain in this wake-up ("K", "T")
             wr |-> Idle,            \* working_repeat
             inTablet |-> FALSE, restarts |-> 0,
             mst |-> InitState,      \* the mapper
             held |-> <<>>,          \* keys down on the virtual keyboard (held_keys)
             out |-> <<>>,           \* payload of the pending send
             after |-> "",           \* where the loop continues after the send
             pendrep |-> NoRep]      \* repeat instruction to apply after the send of a step

Ps(ks) == [i \in 1..Len(ks) |-> P(ks[i])]
\* the repeat chord: those of the keys that are not already held, pressed in order, released in reverse
Chord(keys, held) == LET ks == SelectSeq(keys, LAMBDA k: ~Contains(held, k)) IN Ps(ks) \o Rs(Reverse(ks))

RECURSIVE NoteSent(_, _)       \* note_sent: fold a sent batch into held_keys
NoteSent(held, evs) ==
  IF evs = <<>> THEN held
  ELSE LET e == Head(evs) IN
       NoteSent(IF e.t = "P" THEN (IF Contains(held, e.k) THEN held ELSE Append(held, e.k))
                ELSE SelectSeq(held, LAMBDA k: k # e.k), Tail(evs))

\* the driver call made in state ls
Call(ls) ==
  CASE ls.pc = "register" -> [c |-> "register"]
    [] ls.pc = "poll" -> [c |-> "poll", timed |-> ls.wr.kind = "Repeating"]
    [] ls.pc = "kbd" -> [c |-> "kbd"]
    [] ls.pc = "tab" -> [c |-> "tab"]
    [] ls.pc = "send" -> [c |-> "send", evs |-> ls.out]
    [] ls.pc = "done" -> [c |-> "ret", ok |-> TRUE]
    [] ls.pc = "failed" -> [c |-> "ret", ok |-> FALSE]

Fail(ls) == [ls EXCEPT !.pc = "failed"]              \* the `?` after every driver call
\* `for dev_ev in dev_evs`: next device of this wake-up, or back to poll
Dispatch(ls) == IF ls.devs = <<>> THEN [ls EXCEPT !.pc = "poll"]
                ELSE [ls EXCEPT !.pc = IF Head(ls.devs) = "K" THEN "kbd" ELSE "tab", !.devs = Tail(@)]
ApplyRep(ls, rep) ==
  [ls EXCEPT !.pendrep = NoRep,
             !.wr = CASE rep.kind = "Repeating" -> [kind |-> "Repeating", keys |-> rep.keys, delay |-> rep.delay, interval |-> rep.interval]
                      [] rep.kind = "Disabled" -> Idle
                      [] OTHER -> @]
SendThen(ls, evs, after) == [ls EXCEPT !.pc = "send", !.out = evs, !.after = after]

OnRegister(ls, ok) == IF ok THEN [ls EXCEPT !.pc = "poll"] ELSE Fail(ls)

\* res: [kind |-> "dev", devs |-> <<..>>] | [kind |-> "timeout"] | [kind |-> "intr"] | [kind |-> "err"]
OnPoll(ls, res) ==
  CASE res.kind = "err" -> Fail(ls)
    [] res.kind = "dev" -> Dispatch([ls EXCEPT !.restarts = 0, !.devs = res.devs])
    [] res.kind = "intr" -> [ls EXCEPT !.restarts = @ + 1]
    [] res.kind = "timeout" ->
         IF ls.wr.kind = "Idle" THEN ls                      \* "Well that's weird. I guess just keep going?"
         ELSE IF ls.inTablet THEN [ls EXCEPT !.wr = Idle]
         ELSE LET ch == Chord(ls.wr.keys, ls.held) IN
              IF ch = <<>> THEN ls ELSE SendThen(ls, ch, "poll")

\* res: [kind |-> "busy"] | [kind |-> "end"] | [kind |-> "one", e |-> event] | [kind |-> "err"]
OnKbd(layout, ls, res) ==
  CASE res.kind = "err" -> Fail(ls)
    [] res.kind = "busy" -> Dispatch(ls)
    [] res.kind = "end" -> [ls EXCEPT !.pc = "done"]
    [] res.kind = "one" ->
         IF ls.inTablet THEN ls
         ELSE LET r == Step(layout, ls.mst, res.e)
                  ls1 == [ls EXCEPT !.mst = r.st]
              IN IF r.ev # <<>> THEN [SendThen(ls1, r.ev, "kbd") EXCEPT !.pendrep = r.rep] ELSE ApplyRep(ls1, r.rep)

\* res: busy | end | [kind |-> "one", on |-> BOOLEAN] | err
OnTab(layout, ls, res) ==
  CASE res.kind = "err" -> Fail(ls)
    [] res.kind = "busy" -> Dispatch(ls)
    [] res.kind = "end" -> [ls EXCEPT !.pc = "done"]
    [] res.kind = "one" ->
         LET r == ReleaseAll(layout, ls.mst)
             ls1 == [ls EXCEPT !.inTablet = res.on, !.wr = Idle, !.mst = r.st]
         IN IF r.ev # <<>> THEN SendThen(ls1, r.ev, "tab") ELSE ls1

OnSend(ls, ok) ==
  IF ~ok THEN Fail(ls)
  ELSE LET held2 == IF ls.after = "poll" THEN ls.held ELSE NoteSent(ls.held, ls.out)     \* a chord leaves held_keys alone
           ls1 == [ls EXCEPT !.pc = ls.after, !.out = <<>>, !.after = "", !.held = held2]
       IN IF ls.after = "kbd" THEN ApplyRep(ls1, ls.pendrep) ELSE ls1
=============================================================================
