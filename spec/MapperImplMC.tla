---------------------------- MODULE MapperImplMC ----------------------------
(***************************************************************************)
(* Model whose next-state relation IS the recorded behaviour of the real   *)
(* Mapper::step / Mapper::release_all (the table written by `tmv tabulate`  *)
(* from /repo's current working tree), so an invariant violation here is a *)
(* real history of the real code.  On every explored transition TLC        *)
(*   (a) evaluates the property clauses of MapperProps (viol), and         *)
(*   (b) compares the recorded result with Mapper!Step (drift).            *)
(* Step predicates are computed inside the action into the state variable  *)
(* `viol` because TLC evaluates invariants on newly found states only.     *)
(* `last` (the event of the last transition) is outside the VIEW, so       *)
(* counterexamples carry the history without multiplying states.           *)
(*                                                                         *)
(* Environment: TABLE = path of a shard written by `tmv tabulate`;          *)
(*              REPLAY = "" or path of a one-line ndjson {li, history}     *)
(*              restricting the behaviour to exactly that history.         *)
(***************************************************************************)
EXTENDS Mapper, TLC, TLCExt, Json, IOUtils
MP == INSTANCE MapperProps

CONSTANTS Props,       \* property groups to evaluate, e.g. {"C03"}
          KnownIds,    \* "KNOWN-..." clause ids listed in KNOWN_FINDINGS.json
          CheckDrift,  \* compare with Mapper!Step
          Tags         \* sequence of antecedent tags to count (vacuity report)

Rec == ndJsonDeserialize(IOEnv.TABLE)
Hdr == Rec[1].layouts
Tab(i) == Rec[i + 1]
NL == Len(Hdr)
\* per-layout constants of the property clauses, computed once (TLC evaluates a constant-level definition once)
LC == [i \in 1..NL |-> MP!LayoutConsts(Hdr[i].layout)]
Replay == IF IOEnv.REPLAY = "" THEN <<>> ELSE ndJsonDeserialize(IOEnv.REPLAY)

VARIABLES li, sid, phys, out, mon, viol, last, pos
vars == <<li, sid, phys, out, mon, viol, last, pos>>
View == <<li, sid, phys, out, mon, viol, pos>>

TagIdx(t) == CHOOSE i \in 1..Len(Tags): Tags[i] = t
Count(ts) == \A t \in ts: (\E i \in 1..Len(Tags): Tags[i] = t) => TLCSet(TagIdx(t), TLCGet(TagIdx(t)) + 1)
\* register Len(Tags)+1 counts the transitions on which conformance was evaluated, +2 the mismatches
ConfIdx == Len(Tags) + 1
DriftIdx == Len(Tags) + 2
AuxIdx == Len(Tags) + 3
\* DRIFT = the implementation differs from the detailed specification on this transition.  Not a
\* property violation: counted, the first few printed, exploration goes on.
Conform(ok, what) ==
  /\ TLCSet(ConfIdx, TLCGet(ConfIdx) + 1)
  /\ (~ok => /\ TLCSet(DriftIdx, TLCGet(DriftIdx) + 1)
             /\ (TLCGet(DriftIdx) <= 3 => PrintT(<<"DRIFT", what>>)))

\* a layout whose Mapper::for_layout panicked has no table (first = 0): an initial state without
\* successors, judged by C14
Init == /\ li \in {i \in 1..NL: (Hdr[i].first # 0 \/ (Hdr[i].panic # "" /\ "C14" \in Props)) /\ (Replay = <<>> \/ Replay[1].li = i)}
        /\ sid = Hdr[li].first
        /\ phys = {} /\ out = {} /\ mon = MP!InitMon
        /\ viol = (IF Hdr[li].first = 0 THEN {"C14-panic-for_layout"} ELSE {})
        /\ last = [t |-> "-", k |-> ""] /\ pos = 1
        /\ \A i \in 1..(Len(Tags) + 3): TLCSet(i, 0)

KeySeq == Hdr[li].keys
Keys == MP!SeqSet(KeySeq)
EvIdx(e) == LET ki == CHOOSE i \in 1..Len(KeySeq): KeySeq[i] = e.k IN IF e.t = "P" THEN 2*ki - 1 ELSE 2*ki

Report(v) == v \cap KnownIds # {} => PrintT(<<"KNOWN", Hdr[li].id, v \cap KnownIds>>)

Do(e) ==
  LET layout == Hdr[li].layout
      pre == Tab(sid).st
      t == Tab(sid).tr[EvIdx(e)]
  IN /\ t.n # 0 /\ t.n # -2
     /\ last' = e /\ li' = li
     /\ IF t.n = -1
        THEN \* the real code panicked on this event: a terminal transition, judged by C14
             /\ viol' = (IF "C14" \in Props THEN {"C14-panic-step"} ELSE {})
             /\ UNCHANGED <<sid, phys, out, mon>>
        ELSE LET post == Tab(t.n).st
                 c == MP!CheckC(Props, layout, LC[li], Keys, pre, phys, out, mon, e, post, t.ev, t.rep)
             IN /\ sid' = t.n
                /\ out' = MP!OutAfter(out, t.ev)
                /\ phys' = MP!PhysPost(phys, e)
                /\ mon' = MP!MonNextC(Props, layout, LC[li].hasAbs, pre, phys, mon, e, post)
                /\ viol' = c.v \ KnownIds
                /\ Report(c.v) /\ Count(c.a)
                /\ ("AUX" \in Props => LET ax == MP!Aux(layout, post) IN
                                        ax # {} => /\ TLCSet(AuxIdx, TLCGet(AuxIdx) + 1)
                                                   /\ (TLCGet(AuxIdx) <= 5 => PrintT(<<"AUX", Hdr[li].id, ax, post>>)))
                /\ (CheckDrift =>
                      LET sp == Step(layout, pre, e) IN
                      Conform(sp.st = post /\ sp.ev = t.ev /\ sp.rep = t.rep,
                              [layout |-> Hdr[li].id, pre |-> pre, e |-> e, impl |-> [st |-> post, ev |-> t.ev, rep |-> t.rep], spec |-> sp]))

\* Mapper::release_all (the tablet-mode reset): the keys are treated as physically released
\* (later releases of them are then ill-formed events, which the model explores anyway)
DoReleaseAll ==
  LET ra == Tab(sid).ra IN
  /\ ra.n # 0 /\ ra.n # -2
  /\ last' = [t |-> "RA", k |-> ""] /\ li' = li
  /\ IF ra.n = -1
     THEN /\ viol' = (IF "C14" \in Props THEN {"C14-panic-releaseall"} ELSE {})
          /\ UNCHANGED <<sid, phys, out, mon>>
     ELSE LET post == Tab(ra.n).st
              c == MP!CheckReleaseAll(Props, out, post, ra.ev)
          IN /\ sid' = ra.n
             /\ out' = MP!OutAfter(out, ra.ev)
             /\ phys' = {} /\ mon' = MP!InitMon
             /\ viol' = c.v \ KnownIds
             /\ Report(c.v) /\ Count(c.a)
             /\ (CheckDrift =>
                   LET sp == ReleaseAll(Hdr[li].layout, Tab(sid).st) IN
                   Conform(sp.st = post /\ sp.ev = ra.ev,
                           [layout |-> Hdr[li].id, pre |-> Tab(sid).st, e |-> [t |-> "RA", k |-> ""], impl |-> [st |-> post, ev |-> ra.ev], spec |-> sp]))

Free ==
  /\ pos' = pos
  /\ \/ \E k \in Keys:
          \/ (k \notin phys /\ Cardinality(phys) < Hdr[li].maxheld /\ Do(P(k)))
          \/ (k \in phys /\ Do(R(k)))
          \/ (k \in phys /\ Do(P(k)))       \* ill-formed: press of a held key
          \/ (k \notin phys /\ Do(R(k)))    \* ill-formed: release of a key that is not held
     \/ ("RA" \in Props /\ DoReleaseAll)

Scripted ==
  /\ pos <= Len(Replay[1].history) /\ pos' = pos + 1
  /\ LET e == Replay[1].history[pos] IN IF e.t = "RA" THEN DoReleaseAll ELSE Do(e)

\* a violating state is terminal (the counterexample ends at the first offence)
Next == viol = {} /\ sid # 0 /\ (IF Replay = <<>> THEN Free ELSE Scripted)

Spec == Init /\ [][Next]_vars

NoViolation == viol = {}

\* printed once at the end: the counters
Stats == PrintT(<<"COUNTERS", [i \in 1..(Len(Tags) + 3) |-> TLCGet(i)]>>)
=============================================================================
