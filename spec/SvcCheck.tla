------------------------------ MODULE SvcCheck ------------------------------
(***************************************************************************)
(* Judge for C17: evaluates SvcDefs!Verdict on every recorded result in     *)
(* IOEnv.RESULTS and prints the violating cases.                            *)
(***************************************************************************)
EXTENDS SvcDefs
Judge(i) == LET r == Res[i]  v == Verdict(r) IN
            v # {} => PrintT(<<IF v \subseteq KnownIds THEN "KNOWN" ELSE "BAD", r.id, v>>)
ASSUME \A i \in 1..Len(Res): Judge(i)
ASSUME PrintT(<<"JUDGED", Len(Res), Cardinality({i \in 1..Len(Res): NonTrivial(Res[i])})>>)
VARIABLE x
Init == x = 0
Next == x' = x
=============================================================================
