------------------------------- MODULE DevGen -------------------------------
(***************************************************************************)
(* Case generator for C16: every single entry kind (the reference for        *)
(* locality), every sequence of up to MaxLen entries over the kinds, each     *)
(* with a choice of exclude-pattern lists.  Written as ndjson to IOEnv.OUT.   *)
(***************************************************************************)
EXTENDS DevList, TLC, Json, IOUtils
CONSTANT MaxLen
RECURSIVE SeqsOfLen(_, _)
SeqsOfLen(S, n) == IF n = 0 THEN {<<>>} ELSE {Append(s, x): s \in SeqsOfLen(S, n - 1), x \in S}
Lists == UNION {SeqsOfLen(KindIds, n): n \in 0..MaxLen}
PatLists == {<<>>, <<"*Mouse*">>, <<"AT Translated Set 2 keyboard">>, <<"*">>, <<"Nothing*", "totalmapper">>, <<"AT*", "*Keys">>,
             <<"*keyboard">>, <<"?T Translated Set 2 keyboard", "Compact?Keys">>, <<"SINO WEALTH Gaming KB ">>, <<"SINO WEALTH Gaming KB", "*Mouse*">>, <<"*KB?">>, <<"* ">>, <<"">>, <<"AT*", "">>}
\* the singles come first, with the empty exclude list: they are the per-entry reference
Singles == [i \in KindIds |-> [entries |-> <<i>>, excludes |-> <<>>]]
Rest == SetToSeq({[entries |-> l, excludes |-> p]: l \in Lists, p \in PatLists} \ {Singles[i]: i \in KindIds})
Cases == Singles \o Rest
ASSUME ndJsonSerialize(IOEnv.OUT, [i \in 1..Len(Cases) |-> [id |-> i, entries |-> Cases[i].entries, excludes |-> Cases[i].excludes, text |-> Text(Cases[i].entries)]])
ASSUME PrintT(<<"GENERATED", Len(Cases), Len(Kinds)>>)
VARIABLE x
Init == x = 0
Next == x' = x
=============================================================================
