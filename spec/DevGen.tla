------------------------------- MODULE DevGen -------------------------------
(***************************************************************************)
(* Case generator for C16: every single entry kind (the reference for        *)
(* locality), every sequence of up to MaxLen entries over the kinds, each     *)
(* with a choice of exclude-pattern lists.  Written as ndjson to IOEnv.OUT.   *)
(***************************************************************************)
EXTENDS DevList, TLC, Json, IOUtils
CONSTANTS MaxLen,
          Shard, NShards    \* this process renders and writes the cases number Shard, Shard + NShards, ... (1 <= Shard <= NShards)
RECURSIVE SeqsOfLen(_, _)
SeqsOfLen(S, n) == IF n = 0 THEN {<<>>} ELSE {Append(s, x): s \in SeqsOfLen(S, n - 1), x \in S}
Lists == UNION {SeqsOfLen(KindIds, n): n \in 0..MaxLen}
PatLists == {<<>>, <<"*Mouse*">>, <<"AT Translated Set 2 keyboard">>, <<"*">>, <<"Nothing*", "totalmapper">>, <<"AT*", "*Keys">>,
             <<"*keyboard">>, <<"?T Translated Set 2 keyboard", "Compact?Keys">>, <<"SINO WEALTH Gaming KB ">>, <<"SINO WEALTH Gaming KB", "*Mouse*">>, <<"*KB?">>, <<"* ">>, <<"">>, <<"AT*", "">>,
             <<"Microsoft Microsoft(R) 2.4GHz Transceiver v9.0">>, <<"*Microsoft(R)*">>, <<"Nothing*", "*(R) 2.4GHz Transceiver v9.0">>,
             <<"*7\"">>, <<"Rii Mini Keyboard 7">>, <<"Nothing*", "Rii Mini Keyboard 7\"">>}
\* the singles come first, with the empty exclude list: they are the per-entry reference
Singles == [i \in KindIds |-> [entries |-> <<i>>, excludes |-> <<>>]]
Rest == SetToSeq({[entries |-> l, excludes |-> p]: l \in Lists, p \in PatLists} \ {Singles[i]: i \in KindIds})
Cases == Singles \o Rest
ASSUME LET cs == Cases
           n == IF Shard > Len(cs) THEN 0 ELSE (Len(cs) - Shard) \div NShards + 1
       IN ndJsonSerialize(IOEnv.OUT, [j \in 1..n |-> LET i == Shard + (j - 1) * NShards IN
                                                      [id |-> i, entries |-> cs[i].entries, excludes |-> cs[i].excludes, text |-> Text(cs[i].entries)]])
ASSUME PrintT(<<"GENERATED", Len(Cases), Len(Kinds)>>)
VARIABLE x
Init == x = 0
Next == x' = x
=============================================================================
