------------------------------ MODULE DevCheck ------------------------------
(***************************************************************************)
(* Judge for C16.  RESULTS = ndjson from `tmv devlist` joined with the cases *)
(* (entries, excludes): what the two real extractors returned for the text    *)
(* (kbds = the --all-keyboards path, devs = the --dev-file path with its      *)
(* is_keyboard flag) and what the two real exclusion functions flagged.       *)
(* SINGLES = the same for every single entry kind alone.                      *)
(*   locality:  the result for a list is the union (as a bag) of the results   *)
(*              for its entries taken alone (it depends on the entry only);    *)
(*   agreement: the keyboards of the first path are exactly the devices the   *)
(*              second path flags as keyboards (as bags: order is not stated); *)
(*   exclusion: a device is flagged on either path exactly when its name       *)
(*              matches one of the patterns (glob semantics of DevList).      *)
(* Classification vs DevList!Keyboardish is reported as DRIFT only.          *)
(***************************************************************************)
EXTENDS DevList, TLC, Json, IOUtils
CONSTANT KnownIds
Res == ndJsonDeserialize(IOEnv.RESULTS)
Single == ndJsonDeserialize(IOEnv.SINGLES)      \* Single[k] = result for entry kind k alone

Strip(d) == [sysfs |-> d.sysfs, name |-> d.name]
\* The statement says which devices are selected, not in which order they are reported: results are compared as bags
\* (a change that sorts the keyboards by name breaks nothing that C16 says).
SameBag(s, t) == /\ Len(s) = Len(t)
                 /\ \A x \in {s[i]: i \in 1..Len(s)} \cup {t[i]: i \in 1..Len(t)}:
                       Cardinality({i \in 1..Len(s): s[i] = x}) = Cardinality({i \in 1..Len(t): t[i] = x})
Verdict(r) ==
  IF r.o # "ok" THEN {"C16-extractor-panics"}
  ELSE LET expDevs == FlattenSeq([i \in 1..Len(r.entries) |-> Single[r.entries[i]].devs])
           expKbds == FlattenSeq([i \in 1..Len(r.entries) |-> Single[r.entries[i]].kbds])
           kOfDevs == SelectSeq(r.devs, LAMBDA d: d.kbd)
       IN (IF ~SameBag(r.devs, expDevs) \/ ~SameBag(r.kbds, expKbds) THEN {"C16-not-local"} ELSE {})
          \cup (IF ~SameBag(r.kbds, [i \in 1..Len(kOfDevs) |-> Strip(kOfDevs[i])]) THEN {"C16-paths-disagree"} ELSE {})
          \cup (IF \E i \in 1..Len(r.entries): LET e == Kinds[r.entries[i]]  s == Single[r.entries[i]] IN
                      \/ (e.kind \in SureKeyboard /\ (Len(s.devs) # 1 \/ ~s.devs[1].kbd \/ Len(s.kbds) # 1))
                      \/ (e.kind \in SureNotKeyboard /\ ((Len(s.devs) >= 1 /\ s.devs[1].kbd) \/ s.kbds # <<>>))
                THEN {"C16-real-device-misclassified"} ELSE {})
          \cup (IF \E i \in 1..Len(r.kbds): r.exk[i] # Excluded(r.kbds[i].name, r.excludes) THEN {"C16-exclusion-all-keyboards"} ELSE {})
          \cup (IF \E i \in 1..Len(r.devs): r.exd[i] # Excluded(r.devs[i].name, r.excludes) THEN {"C16-exclusion-dev-file"} ELSE {})

\* informative: the per-entry reading of the model
DriftOf(k) == LET e == Kinds[k]  s == Single[k] IN
              \/ (Listed(e) /\ (Len(s.devs) # 1 \/ (Len(s.devs) = 1 /\ (s.devs[1].kbd # Keyboardish(e) \/ s.devs[1].name # NameOf(e) \/ s.devs[1].sysfs # e.sysfs))))
              \/ (~Listed(e) /\ s.devs # <<>>)
ASSUME \A k \in 1..Len(Single): DriftOf(k) => PrintT(<<"DRIFT", Kinds[k].kind, "classified differently from DevList!Keyboardish", Single[k].devs>>)

Judge(i) == LET r == Res[i]  v == Verdict(r) IN
            v # {} => PrintT(<<IF v \subseteq KnownIds THEN "KNOWN" ELSE "BAD", r.id, v>>)
ASSUME \A i \in 1..Len(Res): Judge(i)
\* non-trivial: at least two entries, or an exclude list
ASSUME PrintT(<<"JUDGED", Len(Res), Cardinality({i \in 1..Len(Res): Len(Res[i].entries) >= 2 \/ Res[i].excludes # <<>>})>>)
VARIABLE x
Init == x = 0
Next == x' = x
=============================================================================
