---------------------------- MODULE StartupTrace ----------------------------
(***************************************************************************)
(* Trace validation of the REAL device start-up (open_device:                *)
(* DevInputReader::open with WaitReleaseAndExclude, DevInputWriter::open,    *)
(* TabletModeSwitchReader::open) against spec/Startup.tla and a reference    *)
(* for the uinput set-up.  TRACE = ndjson written by `tmv loop` for          *)
(* full-stack cases: the records {"c":"su","k":<kind>,...} between a `reset`  *)
(* line (mode "full", with the keys down at open) and the loop's records;    *)
(* all other lines are skipped here (LoopTrace.tla judges them).             *)
(* Not one of the listed properties: failing clauses are printed as SU-BAD   *)
(* lines and reported as auxiliary findings, never as a VIOLATION.           *)
(***************************************************************************)
EXTENDS Naturals, Sequences, FiniteSets, TLC, TLCExt, Json, IOUtils

Rec == ndJsonDeserialize(IOEnv.TRACE)
N == Len(Rec)

VARIABLES l, cur, on, down, buf, pc, snap, ui, viol, flushed
vars == <<l, cur, on, down, buf, pc, snap, ui, viol, flushed>>

\* registers: 1 start-ups judged, 2 with a key down at open, 3 grabs, 4 uinput set-ups completed, 5 start-ups that end with unread events in the buffer
NReg == 5
Bump(i) == TLCSet(i, TLCGet(i) + 1)
BumpIf(c, i) == c => Bump(i)
Tag(c, t) == IF c THEN {t} ELSE {}
SeqSet(s) == {s[i]: i \in 1..Len(s)}

NoUi == [opened |-> FALSE, evbits |-> <<>>, keybits |-> <<>>, wrote |-> FALSE, created |-> FALSE, tablet |-> FALSE]
Init == /\ l = 1 /\ cur = "" /\ on = FALSE /\ down = {} /\ buf = <<>> /\ pc = "off" /\ snap = {} /\ ui = NoUi /\ viol = {} /\ flushed = FALSE
        /\ \A i \in 1..NReg: TLCSet(i, 0)

\* O_RDONLY|O_NONBLOCK and O_WRONLY|O_NONBLOCK on Linux
RdNonblock == 2048
WrNonblock == 2049

RECURSIVE Apply(_, _)
Apply(d, evs) == IF evs = <<>> THEN d
                 ELSE Apply(IF Head(evs).t = "P" THEN d \cup {Head(evs).k} ELSE IF Head(evs).t = "R" THEN d \ {Head(evs).k} ELSE d, Tail(evs))

\* uinput_user_dev as DevInputWriter::open must write it: name[80] = "totalmapper", id = {bustype 3, vendor 1, product 1, version 1},
\* ff_effects_max = 0, four arrays of 64 zero ints (little endian)
NameBytes == <<116, 111, 116, 97, 108, 109, 97, 112, 112, 101, 114>>
UserDev == [i \in 1..1116 |-> IF i <= 11 THEN NameBytes[i]
                              ELSE IF i = 81 THEN 3 ELSE IF i = 83 THEN 1 ELSE IF i = 85 THEN 1 ELSE IF i = 87 THEN 1 ELSE 0]

Report(id, v) == v # {} => PrintT(<<"SU-BAD", id, v>>)

\* what is owed when the start-up is over (the loop's first record, the next reset, or the end of the file)
Closing == IF ~on THEN {}
           ELSE Tag(pc # "done", "SU-loop-started-before-grab")
                \cup Tag(~ui.created, "SU-uinput-device-not-created")
                \cup Tag(~ui.tablet, "SU-tablet-device-not-opened")

Step(r) ==
  LET down1 == Apply(down, r.arrK)
      buf1 == buf \o r.arrK
  IN
  CASE r.k = "kopen" ->
         /\ viol' = viol \cup Tag(pc # "start", "SU-unexpected-call-kopen") \cup Tag(r.flags # RdNonblock, "SU-keyboard-open-flags")
         /\ pc' = "gkey" /\ down' = down1 /\ buf' = buf1 /\ UNCHANGED <<snap, ui>>
    [] r.k = "gkey" ->
         /\ viol' = viol \cup Tag(pc # "gkey", "SU-unexpected-call-gkey")
                         \cup Tag(SeqSet(r.down) # down1, "ENV-gkey-result")
                         \cup Tag(r.len < 96, "SU-gkey-buffer-too-short")     \* KEY_MAX = 0x2ff: 96 bytes
         /\ snap' = down1 /\ pc' = (IF down1 = {} THEN "grab" ELSE "read") /\ down' = down1 /\ buf' = buf1 /\ UNCHANGED ui
    [] r.k = "read" ->
         /\ viol' = viol \cup Tag(pc # "read", "SU-unexpected-call-read")
                         \cup Tag(r.res = "one" /\ (buf1 = <<>> \/ Head(buf1) # r.e), "ENV-wrong-event")
                         \cup Tag(r.res = "busy" /\ buf1 # <<>>, "ENV-busy-with-data")
         /\ buf' = (IF r.res = "one" THEN Tail(buf1) ELSE buf1) /\ pc' = (IF r.res = "one" THEN "gkey" ELSE "poll")
         /\ down' = down1 /\ UNCHANGED <<snap, ui>>
    [] r.k = "poll" ->
         /\ viol' = viol \cup Tag(pc # "poll", "SU-unexpected-call-poll") \cup Tag(buf1 = <<>>, "ENV-poll-returned-without-data")
         /\ pc' = "gkey" /\ down' = down1 /\ buf' = buf1 /\ UNCHANGED <<snap, ui>>
    [] r.k = "grab" ->
         /\ viol' = viol \cup Tag(pc # "grab", "SU-unexpected-call-grab")
                         \cup Tag(snap # {}, "SU-grab-although-keys-were-reported-down")
                         \cup Tag(r.arg = 0, "SU-grab-argument-releases")
         /\ Bump(3) /\ BumpIf(buf1 # <<>>, 5)
         /\ pc' = "done" /\ down' = down1 /\ buf' = buf1 /\ UNCHANGED <<snap, ui>>
    [] r.k = "uopen" ->
         /\ viol' = viol \cup Tag(pc # "done", "SU-uinput-opened-before-grab") \cup Tag(r.flags # WrNonblock, "SU-uinput-open-flags")
         /\ ui' = [ui EXCEPT !.opened = TRUE] /\ UNCHANGED <<pc, snap, down, buf>>
    [] r.k = "evbit" ->
         /\ viol' = viol \cup Tag(~ui.opened \/ ui.created, "SU-uinput-call-order")
         /\ ui' = [ui EXCEPT !.evbits = Append(@, r.v)] /\ UNCHANGED <<pc, snap, down, buf>>
    [] r.k = "keybits" ->
         /\ viol' = viol \cup Tag(~ui.opened \/ ui.created, "SU-uinput-call-order")
         /\ ui' = [ui EXCEPT !.keybits = @ \o r.vals] /\ UNCHANGED <<pc, snap, down, buf>>
    [] r.k = "udev" ->
         /\ viol' = viol \cup Tag(~ui.opened \/ ui.created \/ ui.wrote, "SU-uinput-call-order")
                         \cup Tag(r.bytes # UserDev, "SU-uinput-user-dev-bytes")
         /\ ui' = [ui EXCEPT !.wrote = TRUE] /\ UNCHANGED <<pc, snap, down, buf>>
    [] r.k = "create" ->
         /\ viol' = viol \cup Tag(~ui.opened \/ ui.created \/ ~ui.wrote, "SU-uinput-call-order")
                         \* EV_SYN (0) and EV_KEY (1) are needed for key events to be delivered; EV_MSC (4) is what the code adds
                         \cup Tag(~({0, 1} \subseteq SeqSet(ui.evbits)), "SU-uinput-event-types")
                         \* every key the loop may write must have been announced: 1 .. 561 (the README's wlroots limit)
                         \cup Tag(SeqSet(ui.keybits) # 1..561, "SU-uinput-key-bits")
         /\ Bump(4)
         /\ ui' = [ui EXCEPT !.created = TRUE] /\ UNCHANGED <<pc, snap, down, buf>>
    [] r.k = "topen" ->
         /\ viol' = viol \cup Tag(r.flags # RdNonblock, "SU-tablet-open-flags")
         /\ ui' = [ui EXCEPT !.tablet = TRUE] /\ UNCHANGED <<pc, snap, down, buf>>
    [] OTHER ->
         /\ viol' = viol \cup {"SU-unexpected-call-" \o r.k}
         /\ UNCHANGED <<pc, snap, down, buf, ui>>

ConsumeLine ==
  /\ l <= N /\ l' = l + 1 /\ flushed' = FALSE
  /\ LET r == Rec[l] IN
     IF r.c = "reset"
     THEN /\ Report(cur, viol \cup Closing)
          /\ cur' = r.id /\ on' = (r.mode = "full")
          /\ down' = (IF r.mode = "full" THEN SeqSet(r.held) ELSE {}) /\ buf' = <<>> /\ pc' = "start" /\ snap' = {} /\ ui' = NoUi /\ viol' = {}
          /\ BumpIf(r.mode = "full", 1) /\ BumpIf(r.mode = "full" /\ r.held # <<>>, 2)
     ELSE IF on /\ r.c = "su"
     THEN /\ Step(r) /\ UNCHANGED <<cur, on>>
     ELSE IF on
     THEN \* the loop's first record ends the start-up
          /\ viol' = viol \cup Closing /\ on' = FALSE /\ Report(cur, viol \cup Closing)
          /\ UNCHANGED <<cur, down, buf, pc, snap, ui>>
     ELSE UNCHANGED <<cur, on, down, buf, pc, snap, ui, viol>>

Flush == /\ l = N + 1 /\ ~flushed /\ flushed' = TRUE /\ (on => Report(cur, viol \cup Closing))
         /\ UNCHANGED <<l, cur, on, down, buf, pc, snap, ui, viol>>

Next == ConsumeLine \/ Flush
Spec == Init /\ [][Next]_vars
Accepted == PrintT(<<"SU-ACCEPTED", TLCGet("stats").diameter - 2, N, [i \in 1..NReg |-> TLCGet(i)]>>)
=============================================================================
