-------------------------------- MODULE Fleet --------------------------------
(***************************************************************************)
(* The static fleet of `remap --all-keyboards` and `remap --dev-file ...`:   *)
(* do_remapping_loop_these_devices (src/remapping_loop.rs), reached through   *)
(* do_remapping_loop_all_devices (list_keyboards + flag_excluded) or          *)
(* do_remapping_loop_multiple_devices (filter_devices_verbose).               *)
(*                                                                           *)
(* One action per step of the code:                                          *)
(*   Open     one iteration of `for p in devices { drivers.push(open_device   *)
(*            (..)?) }`: the devices are opened (and GRABBED) in list order;   *)
(*            the first failing open ends the function with that error, no    *)
(*            worker is ever started, and the descriptors opened so far are   *)
(*            not closed (DevInputReader has no Drop): their keyboards stay   *)
(*            grabbed and unserved until the process exits                    *)
(*   Spawn    `for driver in drivers.drain(..) { spawn(per-device loop) }`    *)
(*   Join     one iteration of `for th in threads { th.join()?? }`: the       *)
(*            threads are joined IN LIST ORDER; the first Err (in list order) *)
(*            is returned; Ok(()) only when every worker has returned Ok      *)
(* Environment: which devices are in the kernel's list (Present), which of    *)
(* them cannot be opened (Bad: permissions, a grab held elsewhere), and the    *)
(* workers ending in any order (device gone: Ok; I/O error: Err, C20).        *)
(*                                                                           *)
(* The finished behaviours are printed as schedules (EmitSchedule) and        *)
(* replayed on the real functions (`tmv fleet`), whose recorded calls          *)
(* FleetTrace.tla validates.                                                  *)
(***************************************************************************)
EXTENDS Naturals, Sequences, FiniteSets, TLC, Json

CONSTANTS Devs,      \* sequence of device ids in the order of the kernel's list (all of them selectable keyboards)
          Emit

DevSet == {Devs[i]: i \in 1..Len(Devs)}

VARIABLES present,   \* subset of DevSet: in the kernel's list (chosen initially; the fleet is static)
          bad,       \* subset of present: open_device fails on these
          todo,      \* the selected devices, in list order
          pc,        \* "open" | "spawn" | "join" | "done"
          i,         \* index into todo (open phase, join phase)
          opened,    \* sequence of devices opened (and grabbed) so far
          wst,       \* [DevSet -> "none" | "run" | "ok" | "err"]: the worker of each device
          ret,       \* "none" | "ok" | "openerr" | "workererr"
          errdev,    \* the device whose error was returned
          ends       \* the environment's choices so far: sequence of <<device, "ok" | "err">>
vars == <<present, bad, todo, pc, i, opened, wst, ret, errdev, ends>>

InOrder(S) == SelectSeq(Devs, LAMBDA d: d \in S)

Init == /\ present \in SUBSET DevSet /\ bad \in SUBSET present
        /\ todo = InOrder(present) /\ pc = "open" /\ i = 1 /\ opened = <<>>
        /\ wst = [d \in DevSet |-> "none"] /\ ret = "none" /\ errdev = "" /\ ends = <<>>

\* ---------------------------------------------------------------- the function
Open ==
  /\ pc = "open"
  /\ IF i > Len(todo)
     THEN pc' = "spawn" /\ UNCHANGED <<i, opened, ret, errdev>>
     ELSE IF todo[i] \in bad
          THEN pc' = "done" /\ ret' = "openerr" /\ errdev' = todo[i] /\ UNCHANGED <<i, opened>>
          ELSE opened' = Append(opened, todo[i]) /\ i' = i + 1 /\ UNCHANGED <<pc, ret, errdev>>
  /\ UNCHANGED <<present, bad, todo, wst, ends>>

Spawn ==
  /\ pc = "spawn"
  /\ wst' = [d \in DevSet |-> IF \E j \in 1..Len(opened): opened[j] = d THEN "run" ELSE "none"]
  /\ pc' = "join" /\ i' = 1
  /\ UNCHANGED <<present, bad, todo, opened, ret, errdev, ends>>

Join ==
  /\ pc = "join"
  /\ IF i > Len(opened)
     THEN pc' = "done" /\ ret' = "ok" /\ UNCHANGED <<i, errdev>>
     ELSE /\ wst[opened[i]] \in {"ok", "err"}                 \* th.join() blocks until that thread has ended
          /\ IF wst[opened[i]] = "err"
             THEN pc' = "done" /\ ret' = "workererr" /\ errdev' = opened[i] /\ UNCHANGED i
             ELSE i' = i + 1 /\ UNCHANGED <<pc, ret, errdev>>
  /\ UNCHANGED <<present, bad, todo, opened, wst, ends>>

\* ---------------------------------------------------------------- environment
WorkerEnds(d, r) ==
  /\ pc \in {"join"} /\ wst[d] = "run"
  /\ wst' = [wst EXCEPT ![d] = r]
  /\ ends' = Append(ends, <<d, r>>)
  /\ UNCHANGED <<present, bad, todo, pc, i, opened, ret, errdev>>

Next == Open \/ Spawn \/ Join \/ \E d \in DevSet: WorkerEnds(d, "ok") \/ WorkerEnds(d, "err")
Spec == Init /\ [][Next]_vars /\ WF_vars(Open \/ Spawn \/ Join)

\* ---------------------------------------------------------------- what the design gives
TypeOK == /\ pc \in {"open", "spawn", "join", "done"} /\ ret \in {"none", "ok", "openerr", "workererr"}
          /\ \A d \in DevSet: wst[d] \in {"none", "run", "ok", "err"}
Idx(d) == CHOOSE j \in 1..Len(todo): todo[j] = d
\* the devices are opened in list order, each at most once
OpensInListOrder == opened = SubSeq(todo, 1, Len(opened))
\* all or nothing: a worker runs only if EVERY selected device could be opened
AllOrNothing == (\E d \in DevSet: wst[d] # "none") => (opened = todo /\ bad \cap present = {})
\* only selected devices are ever opened, and when no open fails, all of them
OnlyTheSelected == \A j \in 1..Len(opened): opened[j] \in present
AllSelectedOpened == (pc \in {"join"} \/ (pc = "done" /\ ret # "openerr")) => opened = todo
\* the result: Ok only when every worker returned Ok; a worker's error is returned only when every worker listed before it has returned Ok
OkMeansAllOk == (pc = "done" /\ ret = "ok") => \A d \in present: wst[d] = "ok"
FirstErrorInListOrder == (pc = "done" /\ ret = "workererr") =>
                            /\ wst[errdev] = "err"
                            /\ \A d \in present: Idx(d) < Idx(errdev) => wst[d] = "ok"
OpenErrorIsTheFirstBad == (pc = "done" /\ ret = "openerr") =>
                            /\ errdev \in bad
                            /\ \A d \in present: Idx(d) < Idx(errdev) => d \notin bad
\* liveness: if every worker ends in the end, the function returns in the end
Returns == (<>[](\A d \in DevSet: wst[d] # "run") /\ <>(pc # "open")) => <>(pc = "done")

\* ---------------------------------------------------------------- what it does NOT give (each must be REFUTED by TLC; recorded as observations)
\* (1) a worker's failure is reported as soon as it happens (fails: the function is still joining a worker listed earlier)
FailureReportedAtOnce == ~(pc = "join" /\ \E d \in DevSet: wst[d] = "err" /\ i <= Len(opened) /\ wst[opened[i]] = "run")
\* (2) when the function returns, no worker is left running (fails: the first error in list order ends the function, and with it the
\*     process, while the keyboards listed later are still being remapped)
ReturnMeansAllEnded == pc = "done" => \A d \in DevSet: wst[d] # "run"
\* (3) a failing open leaves no keyboard grabbed (fails: the keyboards opened before it stay grabbed, without a worker, until the process exits)
FailedStartLeavesNothingGrabbed == (pc = "done" /\ ret = "openerr") => opened = <<>>

\* ---------------------------------------------------------------- schedules for the recorder
Finished == pc = "done"
EmitSchedule == (Emit /\ Finished) => PrintT(<<"SCHEDULE", ToJson([present |-> InOrder(present), bad |-> InOrder(bad), ends |-> ends])>>)
=============================================================================
