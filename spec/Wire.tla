-------------------------------- MODULE Wire --------------------------------
(***************************************************************************)
(* The evdev/uinput wire format (property C18).  A record is a sequence of  *)
(* bytes of struct input_event size; the layout (record size, offsets of    *)
(* type / code / value, byte order) is a parameter L that the recorder      *)
(* reports from libc::input_event, the oracle C18 names.  Key codes come    *)
(* from the kernel's input-event-codes.h (CodeOf), not from the tool.       *)
(***************************************************************************)
EXTENDS Integers, Sequences, FiniteSets, SequencesExt

EV_SYN == 0
EV_KEY == 1

Byte(n, i) == (n \div (256 ^ i)) % 256                    \* i-th byte of a non-negative number
U16(n, L) == IF L.little_endian THEN <<Byte(n, 0), Byte(n, 1)>> ELSE <<Byte(n, 1), Byte(n, 0)>>
\* two's complement without leaving TLC's 32-bit integers: for n < 0 encode n + 2^31 and set the top bit
I32(n, L) == LET u == IF n >= 0 THEN n ELSE (n + 2147483647) + 1
                 top == IF n >= 0 THEN 0 ELSE 128
                 le == <<Byte(u, 0), Byte(u, 1), Byte(u, 2), Byte(u, 3) + top>>
             IN IF L.little_endian THEN le ELSE Reverse(le)

\* one struct input_event: zero time stamp, then type, code, value at their offsets
Record(type, code, value, L) ==
  [i \in 1..L.size |->
     LET o == i - 1 IN
     IF o >= L.off_type /\ o < L.off_type + 2 THEN U16(type, L)[o - L.off_type + 1]
     ELSE IF o >= L.off_code /\ o < L.off_code + 2 THEN U16(code, L)[o - L.off_code + 1]
     ELSE IF o >= L.off_value /\ o < L.off_value + 4 THEN I32(value, L)[o - L.off_value + 1]
     ELSE 0]

\* what must be written for a batch of events: one EV_KEY record per event, in order, value 1 for a
\* press and 0 for a release, then exactly one SYN_REPORT record (type 0, code 0, value 0)
Encode(batch, CodeOf(_), L) ==
  FlattenSeq([i \in 1..Len(batch) |-> Record(EV_KEY, CodeOf(batch[i].k), IF batch[i].t = "P" THEN 1 ELSE 0, L)])
  \o Record(EV_SYN, 0, 0, L)

\* The statement fixes the record size and the type, code and value of every record; it says nothing about the time stamp in front
\* of them (the kernel overwrites it). Two byte strings are the same records when they agree in length and in those three fields.
InField(o, L) == (o >= L.off_type /\ o < L.off_type + 2) \/ (o >= L.off_code /\ o < L.off_code + 2) \/ (o >= L.off_value /\ o < L.off_value + 4)
SameRecords(bytes, exp, L) == /\ Len(bytes) = Len(exp)
                              /\ \A i \in 1..Len(exp): InField((i - 1) % L.size, L) => bytes[i] = exp[i]

\* the records of a batch, as <<type, code, value>> triples (what a reader on the other end sees)
RecordsOf(batch, CodeOf(_)) ==
  [i \in 1..Len(batch) |-> <<EV_KEY, CodeOf(batch[i].k), IF batch[i].t = "P" THEN 1 ELSE 0>>] \o << <<EV_SYN, 0, 0>> >>

\* what the tool's reader must return for a sequence of records: key records with value 0/1 and a
\* known code, in order; auto-repeat (value 2), non-key and unknown-code records are skipped
ReadFilter(records, Known(_), NameOf(_)) ==
  LET keep == SelectSeq(records, LAMBDA r: r[1] = EV_KEY /\ r[3] \in {0, 1} /\ Known(r[2]))
  IN [i \in 1..Len(keep) |-> [t |-> IF keep[i][3] = 1 THEN "P" ELSE "R", k |-> NameOf(keep[i][2])]]

\* the tablet-mode switch reader (not a listed property; checked as an auxiliary behaviour): EV_SW (5) records with code
\* SW_TABLET_MODE (1) and value 1 / 0 are On / Off, everything else is skipped
TabletFilter(records) ==
  LET keep == SelectSeq(records, LAMBDA r: r[1] = 5 /\ r[2] = 1 /\ r[3] \in {0, 1})
  IN [i \in 1..Len(keep) |-> IF keep[i][3] = 1 THEN "On" ELSE "Off"]
=============================================================================
