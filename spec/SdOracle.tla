------------------------------ MODULE SdOracle ------------------------------
(***************************************************************************)
(* Self-check of the C17 oracle: what SystemdExec!Parsed says about a set    *)
(* of raw argument texts, written out so that it can be compared with what   *)
(* the real systemd (`systemd --test`, which dumps the parsed ExecStart       *)
(* command line after unquoting and specifier expansion, before the exec-time *)
(* $ handling) makes of the same texts.  A disagreement is a defect of the    *)
(* oracle (tool error), never a violation of C17.                             *)
(* Cases: every string of length 1..Depth over an ASCII alphabet of the       *)
(* syntax characters (no specifier letters other than through %%).            *)
(***************************************************************************)
EXTENDS SystemdExec, SequencesExt, TLC, Json, IOUtils
CONSTANT Depth
\* \ ' " space tab % $ { } ; x 2 a s n
Alphabet == <<92, 39, 34, 32, 9, 37, 36, 123, 125, 59, 120, 50, 97, 115, 110>>
Sym == {Alphabet[i]: i \in 1..Len(Alphabet)}
RECURSIVE Strs(_)
Strs(n) == IF n = 0 THEN {<<>>} ELSE {Append(s, x): s \in Strs(n - 1), x \in Sym}
Cases == SetToSeq(UNION {Strs(n): n \in 1..Depth} \cup {<<92, 120, a, b>>: a \in {50, 97, 120}, b \in {50, 97, 34}} \cup {<<34, a, b, 34>>: a \in Sym, b \in Sym})
Prefix == <<47,98,105,110,47,116,114,117,101,32,45,45,120,32>>   \* "/bin/true --x "
Suffix == <<32,45,45,121>>                                          \* " --y"
Out == [i \in 1..Len(Cases) |-> LET p == Parsed(Prefix \o Cases[i] \o Suffix) IN
          [id |-> i, raw |-> Cases[i], ok |-> p.ok, semi |-> p.semi, argv |-> IF p.ok THEN p.argv ELSE <<>>]]
ASSUME ndJsonSerialize(IOEnv.OUT, Out)
ASSUME PrintT(<<"GENERATED", Len(Cases)>>)
VARIABLE x
Init == x = 0
Next == x' = x
=============================================================================
