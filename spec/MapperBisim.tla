---------------------------- MODULE MapperBisim ----------------------------
(***************************************************************************)
(* C06 as a product construction over the tabulated implementation.        *)
(*                                                                         *)
(* Phase 1 runs one copy `a` of the real mapper through ANY history        *)
(* (ill-formed events included, at most maxheld keys held).  From every    *)
(* state in which nothing is physically held (SwitchRest), and from EVERY   *)
(* reachable state through the real release_all (SwitchReleaseAll), phase 2 *)
(* starts a second copy `b` in the initial state and feeds both copies the  *)
(* same events - any events, also releases of keys that were held before    *)
(* release_all ("unseen key activity") - comparing the emitted events and   *)
(* the repeat instruction of every step, to a fixpoint (not to a depth).    *)
(* At the switch nothing may be held on the virtual keyboard.               *)
(*                                                                         *)
(* Environment: TABLE = shard written by `tmv tabulate`; REPLAY = "" or a   *)
(* one-line ndjson {li, history} (history entries {t: "P"|"R"|"REST"|"RA"}).*)
(***************************************************************************)
EXTENDS Naturals, Sequences, FiniteSets, TLC, TLCExt, Json, IOUtils

CONSTANT Rest      \* TRUE: the switch is also taken at rest (all keys released); FALSE: only through release_all (C12's reading)

Rec == ndJsonDeserialize(IOEnv.TABLE)
Hdr == Rec[1].layouts
Tab(i) == Rec[i + 1]
Replay == IF IOEnv.REPLAY = "" THEN <<>> ELSE ndJsonDeserialize(IOEnv.REPLAY)

VARIABLES li, a, b, phase, physA, phys2, bad, held, last, pos
vars == <<li, a, b, phase, physA, phys2, bad, held, last, pos>>
\* in phase 2 the history of phase 1 is irrelevant
View == IF phase = 1 THEN <<li, a, 0, 1, physA, {}, bad, held, pos>> ELSE <<li, a, b, 2, {}, phys2, bad, {}, pos>>

KeySeq == Hdr[li].keys
Keys == {KeySeq[i]: i \in 1..Len(KeySeq)}
EvIdx(t, k) == LET ki == CHOOSE i \in 1..Len(KeySeq): KeySeq[i] = k IN IF t = "P" THEN 2*ki - 1 ELSE 2*ki
RECURSIVE Fold(_, _)
Fold(h, evs) == IF evs = <<>> THEN h
                ELSE Fold(IF Head(evs).t = "P" THEN h \cup {Head(evs).k} ELSE h \ {Head(evs).k}, Tail(evs))

\* registers: 1 = product steps compared, 2 = switches at rest, 3 = switches by release_all
Init == /\ li \in {i \in 1..Len(Hdr): Hdr[i].first # 0 /\ (Replay = <<>> \/ Replay[1].li = i)}
        /\ a = Hdr[li].first /\ b = 0 /\ phase = 1 /\ physA = {} /\ phys2 = {}
        /\ bad = {} /\ held = {} /\ last = [t |-> "-", k |-> ""] /\ pos = 1
        /\ \A i \in 1..3: TLCSet(i, 0)

Allowed(ph, t, k) == t = "R" \/ k \in ph \/ Cardinality(ph) < Hdr[li].maxheld

Step1(t, k) ==
  /\ phase = 1 /\ Allowed(physA, t, k)
  /\ LET x == Tab(a).tr[EvIdx(t, k)] IN
     /\ x.n > 0 /\ a' = x.n /\ held' = Fold(held, x.ev)
     /\ physA' = IF t = "P" THEN physA \cup {k} ELSE physA \ {k}
  /\ last' = [t |-> t, k |-> k]
  /\ UNCHANGED <<li, b, phase, phys2, bad>>

SwitchRest ==
  /\ Rest /\ phase = 1 /\ physA = {} /\ phase' = 2 /\ b' = Hdr[li].first
  /\ bad' = (IF held # {} THEN {"C06-held-at-rest"} ELSE {})
  /\ last' = [t |-> "REST", k |-> ""] /\ TLCSet(2, TLCGet(2) + 1)
  /\ UNCHANGED <<li, a, physA, phys2, held>>

SwitchReleaseAll ==
  /\ phase = 1 /\ Tab(a).ra.n > 0
  /\ phase' = 2 /\ b' = Hdr[li].first /\ a' = Tab(a).ra.n
  /\ held' = Fold(held, Tab(a).ra.ev)
  /\ bad' = (IF Fold(held, Tab(a).ra.ev) # {} THEN {"C06-held-after-releaseall"} ELSE {})
  /\ last' = [t |-> "RA", k |-> ""] /\ TLCSet(3, TLCGet(3) + 1)
  /\ UNCHANGED <<li, physA, phys2>>

Step2(t, k) ==
  /\ phase = 2 /\ Allowed(phys2, t, k)
  /\ LET x == Tab(a).tr[EvIdx(t, k)]   y == Tab(b).tr[EvIdx(t, k)] IN
     /\ x.n > 0 /\ y.n > 0
     /\ a' = x.n /\ b' = y.n
     /\ bad' = (IF x.ev # y.ev THEN {"C06-events-differ-from-fresh"} ELSE {})
               \cup (IF x.rep # y.rep THEN {"C06-repeat-differs-from-fresh"} ELSE {})
     /\ phys2' = IF t = "P" THEN phys2 \cup {k} ELSE phys2 \ {k}
     /\ TLCSet(1, TLCGet(1) + 1)
  /\ last' = [t |-> t, k |-> k]
  /\ UNCHANGED <<li, phase, physA, held>>

Free == /\ pos' = pos
        /\ \/ \E k \in Keys, t \in {"P", "R"}: Step1(t, k) \/ Step2(t, k)
           \/ SwitchRest \/ SwitchReleaseAll

Scripted == /\ pos <= Len(Replay[1].history) /\ pos' = pos + 1
            /\ LET e == Replay[1].history[pos] IN
               CASE e.t = "REST" -> SwitchRest
                 [] e.t = "RA" -> SwitchReleaseAll
                 [] OTHER -> Step1(e.t, e.k) \/ Step2(e.t, e.k)

Next == bad = {} /\ (IF Replay = <<>> THEN Free ELSE Scripted)
Spec == Init /\ [][Next]_vars

C06 == bad = {}
Stats == PrintT(<<"COUNTERS", <<TLCGet(1), TLCGet(2), TLCGet(3)>>>>)
=============================================================================
